/-
  The send side of header blocks: `_build_headers_frames`, `H2Stream.send_headers`, `push_stream_in_band`.
  A refused call leaves the HPACK context untouched; a successful one makes exactly one `encode` call and the frames it
  returns carry that call's output, cut into fragments that fit the peer's frame size.
-/
import H2.Proofs.HeaderFrames
import H2.Proofs.HeaderRules
import H2.Proofs.RecvStream
namespace H2
open H2.Gen

def endAfterHeaders (sh : Shape) : Bool :=
  match stepShape sh .SEND_HEADERS with
  | (.ok _, sh') => (match (stepShape sh' .SEND_END_STREAM).1 with | .ok _ => true | _ => false)
  | _ => true
theorem tbl_end_after_headers : ∀ s, endAfterHeaders s = true := forall_shape (by decide +kernel)

/-- the HPACK context after exactly one `encode(hs)` call -/
def Hp.afterEncode (hp : Hp) (hs : List Header) : Hp := (Hp.encode hs hp).2
/-- what that `encode` call returned -/
def Hp.encoded (hp : Hp) (hs : List Header) : Bytes := match (Hp.encode hs hp).1 with | .ok b => b | .error _ => []

theorem Hp.encode_eq (hs : List Header) (hp : Hp) : Hp.encode hs hp = (.ok (hp.encoded hs), hp.afterEncode hs) := by
  unfold Hp.encoded Hp.afterEncode Hp.encode
  cases hp.encOracle <;> rfl

theorem validateOutbound_id (hs out : List Header) (fl : HdrFlags) (h : validateOutbound hs fl = .ok out) : out = hs := by
  unfold validateOutbound at h
  simp only at h
  split at h
  · cases h; rfl
  · cases h

/-- the list `_build_headers_frames` hands to the encoder -/
def outList (cfg : Config) (headers : List Header) : List Header := if cfg.normOut then normalizeOutbound headers else headers

/-- `_build_headers_frames`: refused before the encoder is touched, or exactly one `encode` call whose output is cut
    into fragments that fit the frame size -/
theorem buildHeaderBlocks_spec (cfg : Config) (headers : List Header) (fl : HdrFlags) (ov : Int) (s : Stream × Hp)
    (hm : ov < s.1.maxOutFrame) (hov : 0 ≤ ov) :
    wp (buildHeaderBlocks cfg headers fl ov)
      (fun blocks s' => s' = (s.1, s.2.afterEncode (outList cfg headers)) ∧
          blocks.flatten = s.2.encoded (outList cfg headers) ∧ blocks ≠ [] ∧
          (∀ b ∈ blocks.head?, (b.length : Int) + ov ≤ s.1.maxOutFrame) ∧
          (∀ b ∈ blocks.tail, (b.length : Int) ≤ s.1.maxOutFrame ∧ b ≠ []))
      (fun e s' => s' = s) s := by
  unfold buildHeaderBlocks
  wps
  have rest : ∀ hs : List Header, hs = outList cfg headers →
      wp (do
        let encoded ← onHp (Hp.encode hs)
        let s ← getS
        if s.1.maxOutFrame ≤ 0 then raise (.py .ValueError) else
        let first := (s.1.maxOutFrame - ov).toNat
        pure (encoded.take first :: chunks s.1.maxOutFrame.toNat (encoded.length + 1) (encoded.drop first)))
      (fun blocks s' => s' = (s.1, s.2.afterEncode (outList cfg headers)) ∧
          blocks.flatten = s.2.encoded (outList cfg headers) ∧ blocks ≠ [] ∧
          (∀ b ∈ blocks.head?, (b.length : Int) + ov ≤ s.1.maxOutFrame) ∧
          (∀ b ∈ blocks.tail, (b.length : Int) ≤ s.1.maxOutFrame ∧ b ≠ []))
      (fun e s' => s' = s) s := by
    intro hs hhs
    subst hhs
    unfold onHp
    wps
    unfold wp
    rw [Hp.encode_eq]
    simp only
    have hm' : ¬ (s.1.maxOutFrame ≤ 0) := by omega
    rw [if_neg hm']
    refine ⟨trivial, ?_, by simp, ?_, ?_⟩
    · simp only [List.flatten_cons]
      rw [chunks_flatten _ (by omega) _ _ (by simp only [List.length_drop]; omega)]
      exact List.take_append_drop _ _
    · intro b hb
      simp only [List.head?_cons, Option.mem_def, Option.some.injEq] at hb
      subst hb
      simp only [List.length_take]
      omega
    · intro b hb
      simp only [List.tail_cons] at hb
      have := chunks_sizes s.1.maxOutFrame.toNat (by omega) _ _ b hb
      exact ⟨by omega, this.2⟩
  by_cases hv : cfg.valOut = true
  · simp only [hv, if_true]
    try wps
    cases hval : validateOutbound (if cfg.normOut = true then normalizeOutbound headers else headers) fl with
    | error e => trivial
    | ok out =>
      simp only
      have h := rest out (validateOutbound_id _ out fl hval)
      simp only [wp_bind] at h
      exact h
  · simp only [hv, Bool.false_eq_true, if_false]
    try wps
    have h := rest _ rfl
    simp only [wp_bind] at h
    exact h

/-- what a successful header-carrying stream method leaves behind: one `encode` call, its output in the frames -/
def Encoded1 (cfg : Config) (headers : List Header) (s : Stream × Hp) (frames : List Frame) (s' : Stream × Hp) : Prop :=
  s'.2 = s.2.afterEncode (outList cfg headers) ∧
  (frames.filterMap Frame.fragment?).flatten = s.2.encoded (outList cfg headers) ∧
  frames.length = (frames.filterMap Frame.fragment?).length

theorem setEndStream_fragments (fs : List Frame) :
    (setEndStream fs).filterMap Frame.fragment? = fs.filterMap Frame.fragment? ∧ (setEndStream fs).length = fs.length := by
  unfold setEndStream
  split
  · exact ⟨by simp [Frame.fragment?], by simp⟩
  · exact ⟨rfl, rfl⟩

theorem guardedHeaderBlocks_spec (cfg : Config) (headers : List Header) (es pp : Bool) (events : List SEv)
    (s : Stream × Hp) (hm : 5 < s.1.maxOutFrame) :
    wp (Stream.guardedHeaderBlocks cfg headers es pp events)
      (fun blocks s' => s' = (s.1, s.2.afterEncode (outList cfg headers)) ∧
          blocks.flatten = s.2.encoded (outList cfg headers) ∧ blocks ≠ [])
      (fun e s' => s' = s) s := by
  unfold Stream.guardedHeaderBlocks
  wps
  split
  · trivial
  split
  · trivial
  unfold onStream
  wps
  cases events with
  | nil => simp only [buildHdrFlags]; wps
  | cons e0 tl =>
    simp only [buildHdrFlags]
    wps
    have := buildHeaderBlocks_spec cfg headers
      { isClient := s.1.sm.client, isTrailer := e0 == .TrailersSent || e0 == .TrailersReceived,
        isResponse := e0 == .ResponseSent || e0 == .ResponseReceived || e0 == .InformationalResponseReceived,
        isPush := e0 == .PushedStreamReceived || e0 == .PushedRequestSent } (if pp then 5 else 0) s
      (by split <;> omega) (by split <;> omega)
    exact wp_mono this (fun a s' h => ⟨h.1, h.2.1, h.2.2.1⟩) (fun e s' h => h)

def Stream.withShape (st : Stream) (sh : Shape) : Stream := { st with sm := { st.sm with sh := sh } }

/-- `process_input` spelled out on the stream table -/
theorem wp_processInput_eq {Q : List SEv → Stream → Prop} {E : Exc → Stream → Prop} (i : StreamInputs) (st : Stream) :
    wp (processInput i) Q E st =
      (match stepShape st.sm.sh i with
       | (.ok evs, sh) => Q evs (st.withShape sh)
       | (.proto, sh) => E (mkExc .ProtocolError) (st.withShape sh)
       | (.streamClosed w, sh) =>
         E (mkStreamClosed st.sm.sid (if w then [Event.StreamReset st.sm.sid (some (ErrorCodes.STREAM_CLOSED : Int)) false] else []))
           (st.withShape sh)) := by
  simp only [processInput, onSM, wp_zoom]
  unfold wp SM.process Stream.withShape
  cases h : stepShape st.sm.sh i with
  | mk r sh => cases r <;> rfl

theorem sendHeadersAs_spec (input : StreamInputs) (cfg : Config) (headers : List Header) (es pp : Bool)
    (s : Stream × Hp) (hm : 5 < s.1.maxOutFrame) (hin : es = true → input = .SEND_HEADERS) :
    wp (Stream.sendHeadersAs input cfg headers es pp) (fun frames s' => Encoded1 cfg headers s frames s')
      (fun _ s' => s'.2 = s.2) s := by
  unfold Stream.sendHeadersAs
  wps
  unfold onStream
  wps
  rw [wp_processInput_eq]
  cases hstep : stepShape s.1.sm.sh input with
  | mk r sh =>
    cases r with
    | proto => trivial
    | streamClosed w => trivial
    | ok events =>
      simp only
      have g := guardedHeaderBlocks_spec cfg headers es pp events (s.1.withShape sh, s.2) hm
      apply wp_mono g
      · intro blocks s' ⟨hs', hfl, hne⟩
        subst hs'
        wps
        cases es with
        | false =>
          simp only [Bool.false_eq_true, if_false]
          try wps
          refine ⟨rfl, ?_, ?_⟩
          · rw [mkHeaderFrames_fragments _ _ _ (fun b eh => rfl)]; exact hfl
          · rw [mkHeaderFrames_fragments _ _ _ (fun b eh => rfl), mkHeaderFrames_length]
        | true =>
          simp only [if_true]
          try wps
          rw [wp_processInput_eq]
          have ht := tbl_end_after_headers s.1.sm.sh
          unfold endAfterHeaders at ht
          rw [← hin rfl, hstep] at ht
          simp only at ht
          have e1 : (s.1.withShape sh).sm.sh = sh := rfl
          rw [e1]
          cases hend : stepShape sh .SEND_END_STREAM with
          | mk r2 sh2 =>
            rw [hend] at ht
            cases r2 with
            | proto => simp at ht
            | streamClosed w => simp at ht
            | ok evs2 =>
              simp only
              try wps
              obtain ⟨f1, f2⟩ := setEndStream_fragments
                (mkHeaderFrames (fun b eh => Frame.headers s.1.sid b false eh none none) s.1.sid blocks)
              refine ⟨rfl, ?_, ?_⟩
              · rw [f1, mkHeaderFrames_fragments _ _ _ (fun b eh => rfl)]; exact hfl
              · rw [f1, f2, mkHeaderFrames_fragments _ _ _ (fun b eh => rfl), mkHeaderFrames_length]
      · intro e s' hs'
        subst hs'
        simp only [if_true]
        try wps

/-- **`H2Stream.send_headers`**: refused with the HPACK context untouched, or exactly one `encode` of the (normalised)
    list whose output is what the HEADERS / CONTINUATION frames carry -/
theorem stream_sendHeaders_spec (cfg : Config) (headers : List Header) (es pp : Bool) (s : Stream × Hp)
    (hm : 5 < s.1.maxOutFrame) :
    wp (Stream.sendHeaders cfg headers es pp) (fun frames s' => Encoded1 cfg headers s frames s')
      (fun _ s' => s'.2 = s.2) s := by
  unfold Stream.sendHeaders
  wps
  have fin : ∀ informational : Bool,
      (if (informational && es) = true then True
       else wp (Stream.sendHeadersAs (if informational = true then StreamInputs.SEND_INFORMATIONAL_HEADERS else StreamInputs.SEND_HEADERS)
          cfg headers es pp) (fun frames s' => Encoded1 cfg headers s frames s') (fun _ s' => s'.2 = s.2) s) := by
    intro informational
    split
    · trivial
    · rename_i hie
      apply sendHeadersAs_spec _ cfg headers es pp s hm
      intro hes
      subst hes
      cases informational
      · rfl
      · simp at hie
  split
  · try wps
    cases isInformationalResponse headers with
    | error e => trivial
    | ok b => exact fin b
  · try wps
    exact fin false

/-- **`H2Stream.push_stream_in_band`**: the same for PUSH_PROMISE -/
theorem stream_pushInBand_spec (cfg : Config) (related : Int) (headers : List Header) (s : Stream × Hp)
    (hm : 5 < s.1.maxOutFrame) :
    wp (Stream.pushStreamInBand cfg related headers) (fun frames s' => Encoded1 cfg headers s frames s')
      (fun _ s' => s'.2 = s.2) s := by
  unfold Stream.pushStreamInBand
  wps
  unfold onStream
  wps
  rw [wp_processInput_eq]
  cases hstep : stepShape s.1.sm.sh .SEND_PUSH_PROMISE with
  | mk r sh =>
    cases r with
    | proto => trivial
    | streamClosed w => trivial
    | ok events =>
      simp only
      try wps
      split
      · trivial
      cases events with
      | nil => simp only [buildHdrFlags]; wps
      | cons e0 tl =>
        simp only [buildHdrFlags]
        wps
        have := buildHeaderBlocks_spec cfg headers
          { isClient := (s.1.withShape sh).sm.client, isTrailer := e0 == .TrailersSent || e0 == .TrailersReceived,
            isResponse := e0 == .ResponseSent || e0 == .ResponseReceived || e0 == .InformationalResponseReceived,
            isPush := e0 == .PushedStreamReceived || e0 == .PushedRequestSent } 4 (s.1.withShape sh, s.2)
          (by show 4 < s.1.maxOutFrame; omega) (by omega)
        apply wp_mono this
        · intro blocks s' ⟨hs', hfl, hne, _⟩
          subst hs'
          wps
          refine ⟨rfl, ?_, ?_⟩
          · rw [mkHeaderFrames_fragments _ _ _ (fun b eh => rfl)]; exact hfl
          · rw [mkHeaderFrames_fragments _ _ _ (fun b eh => rfl), mkHeaderFrames_length]
        · intro e s' hs'
          subst hs'; rfl

end H2
