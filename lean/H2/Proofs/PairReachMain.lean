/-
  `Inv` (PairReachFull) is preserved by every step of the full two-machine system, and every step is fine.
-/
import H2.Proofs.PairReachFull
namespace H2
open H2.Gen
namespace PairFsm

theorem s3a_use (f : Cfg) (hf : f ∈ R0.elems) (hq : f.qa = []) (i : Fr) (hn : i.changing = false)
    (hm : (maySendAt f.sa i true || maySendAt f.sa i false) = true) :
    fine f.sb i.recv = true ∧ (stepShape f.sb i.recv).2 = f.sb := by
  have h := List.all_eq_true.mp R0_s3A f hf
  rw [hq] at h
  simp only [List.isEmpty_nil, Bool.not_true, Bool.false_or] at h
  have h1 := List.all_eq_true.mp h i ((mem_neutrals i).mpr hn)
  rw [hm] at h1
  simp only [Bool.not_true, Bool.false_or, Bool.and_eq_true, beq_iff_eq] at h1
  exact h1

theorem s3b_use (f : Cfg) (hf : f ∈ R0.elems) (hq : f.qb = []) (k : Fr) (hn : k.changing = false)
    (hm : (maySendAt f.sb k true || maySendAt f.sb k false) = true) :
    fine f.sa k.recv = true ∧ (stepShape f.sa k.recv).2 = f.sa := by
  have h := List.all_eq_true.mp R0_s3B f hf
  rw [hq] at h
  simp only [List.isEmpty_nil, Bool.not_true, Bool.false_or] at h
  have h1 := List.all_eq_true.mp h k ((mem_neutrals k).mpr hn)
  rw [hm] at h1
  simp only [Bool.not_true, Bool.false_or, Bool.and_eq_true, beq_iff_eq] at h1
  exact h1

theorem or_of_flag (s : Shape) (i : Fr) (b : Bool) (h : maySendAt s i b = true) :
    (maySendAt s i true || maySendAt s i false) = true := by
  cases b <;> simp [h]

/-- A sends a frame -/
theorem inv_sendA (c : Cfg) (h : Inv c) (i : Fr)
    (hm : maySendAt c.sa i (c.sb.state == .IDLE && c.qb.isEmpty) = true) :
    Inv { c with sa := (stepShape c.sa i.send).2, qa := c.qa ++ [i] } := by
  have hgood := r0_good _ h.red
  have hnid : (stepShape c.sa i.send).2.state ≠ .IDLE := send_leaves_idle _ _ _ hm
  cases hc : i.changing with
  | true =>
    -- the erased configuration makes the same step in the reduced system
    have hm' : maySendAt (erase c).sa i ((erase c).sb.state == .IDLE && (erase c).qb.isEmpty) = true := by
      show maySendAt c.sa i (c.sb.state == .IDLE && (er c.qb).isEmpty) = true
      rw [flagA_erase c h]; exact hm
    have hstep := r0_step (erase c) _ h.red
      (List.mem_append_left _ (mem_sendA changing (erase c) i ((mem_changing i).mpr hc) hm'))
    refine ⟨?_, ?_, ?_, ?_, ?_⟩
    · have : erase { c with sa := (stepShape c.sa i.send).2, qa := c.qa ++ [i] } =
          { erase c with sa := (stepShape (erase c).sa i.send).2, qa := (erase c).qa ++ [i] } := by
        simp only [erase, er_append, er_single_changing i hc]
      rw [this]; exact hstep.2
    · intro pre j post hsplit hj
      rcases split_snoc c.qa pre post i j hsplit with ⟨post', h1, _⟩ | ⟨_, h2, _⟩
      · exact h.na pre j post' h1 hj
      · rw [h2, hc] at hj; cases hj
    · intro pre k post hsplit hk
      obtain ⟨f, hf, hfa, hfq, hfm⟩ := h.nb pre k post hsplit hk
      -- A was not idle (B has frames in flight to it only if A... ) : the frozen configuration makes A's step too
      have hsa : c.sa.state ≠ .IDLE := by
        intro hidle
        have hq : c.qb ≠ [] := by rw [hsplit]; simp
        have hflag : (c.sb.state == StreamState.IDLE && c.qb.isEmpty) = false := by
          have : c.qb.isEmpty = false := by cases hqq : c.qb with
            | nil => exact absurd hqq hq
            | cons _ _ => rfl
          simp [this]
        rw [hflag, maySendAt_idle_false _ _ hidle] at hm
        cases hm
      have hm2 : maySendAt f.sa i (f.sb.state == .IDLE && f.qb.isEmpty) = true := by
        rw [hfa]
        unfold maySendAt at hm ⊢
        have hs : (c.sa.state != StreamState.IDLE) = true := by simpa using hsa
        simp only [hs, Bool.true_or, Bool.and_true] at hm ⊢
        exact hm
      have hstep2 := r0_step f _ hf (List.mem_append_left _ (mem_sendA changing f i ((mem_changing i).mpr hc) hm2))
      refine ⟨_, hstep2.2, ?_, hfq, hfm⟩
      show (stepShape f.sa i.send).2 = (stepShape c.sa i.send).2
      rw [hfa]
    · intro _; exact hnid
    · exact h.ib
  | false =>
    have hsame : (stepShape c.sa i.send).2 = c.sa := neutral_send_same c.sa i _ hgood.1 hc hm
    refine ⟨?_, ?_, ?_, ?_, ?_⟩
    · have : erase { c with sa := (stepShape c.sa i.send).2, qa := c.qa ++ [i] } = erase c := by
        simp only [erase, er_append, er_single_neutral i hc, List.append_nil, hsame]
      rw [this]; exact h.red
    · intro pre j post hsplit hj
      rcases split_snoc c.qa pre post i j hsplit with ⟨post', h1, _⟩ | ⟨h1, h2, _⟩
      · exact h.na pre j post' h1 hj
      · refine ⟨erase c, h.red, rfl, by rw [h1]; rfl, ?_⟩
        rw [h2]
        exact or_of_flag _ _ _ hm
    · intro pre k post hsplit hk
      obtain ⟨f, hf, hfa, hfq, hfm⟩ := h.nb pre k post hsplit hk
      exact ⟨f, hf, by rw [hfa]; exact hsame.symm, hfq, hfm⟩
    · intro _; exact hnid
    · exact h.ib

/-- B sends a frame -/
theorem inv_sendB (c : Cfg) (h : Inv c) (k : Fr)
    (hm : maySendAt c.sb k (c.sa.state == .IDLE && c.qa.isEmpty) = true) :
    Inv { c with sb := (stepShape c.sb k.send).2, qb := c.qb ++ [k] } := by
  have hgood := r0_good _ h.red
  have hnid : (stepShape c.sb k.send).2.state ≠ .IDLE := send_leaves_idle _ _ _ hm
  cases hc : k.changing with
  | true =>
    have hm' : maySendAt (erase c).sb k ((erase c).sa.state == .IDLE && (erase c).qa.isEmpty) = true := by
      show maySendAt c.sb k (c.sa.state == .IDLE && (er c.qa).isEmpty) = true
      rw [flagB_erase c h]; exact hm
    have hstep := r0_step (erase c) _ h.red
      (List.mem_append_left _ (mem_sendB changing (erase c) k ((mem_changing k).mpr hc) hm'))
    refine ⟨?_, ?_, ?_, ?_, ?_⟩
    · have : erase { c with sb := (stepShape c.sb k.send).2, qb := c.qb ++ [k] } =
          { erase c with sb := (stepShape (erase c).sb k.send).2, qb := (erase c).qb ++ [k] } := by
        simp only [erase, er_append, er_single_changing k hc]
      rw [this]; exact hstep.2
    · intro pre i post hsplit hi
      obtain ⟨f, hf, hfb, hfq, hfm⟩ := h.na pre i post hsplit hi
      have hsb : c.sb.state ≠ .IDLE := by
        intro hidle
        have hq : c.qa ≠ [] := by rw [hsplit]; simp
        have hflag : (c.sa.state == StreamState.IDLE && c.qa.isEmpty) = false := by
          have : c.qa.isEmpty = false := by cases hqq : c.qa with
            | nil => exact absurd hqq hq
            | cons _ _ => rfl
          simp [this]
        rw [hflag, maySendAt_idle_false _ _ hidle] at hm
        cases hm
      have hm2 : maySendAt f.sb k (f.sa.state == .IDLE && f.qa.isEmpty) = true := by
        rw [hfb]
        unfold maySendAt at hm ⊢
        have hs : (c.sb.state != StreamState.IDLE) = true := by simpa using hsb
        simp only [hs, Bool.true_or, Bool.and_true] at hm ⊢
        exact hm
      have hstep2 := r0_step f _ hf (List.mem_append_left _ (mem_sendB changing f k ((mem_changing k).mpr hc) hm2))
      refine ⟨_, hstep2.2, ?_, hfq, hfm⟩
      show (stepShape f.sb k.send).2 = (stepShape c.sb k.send).2
      rw [hfb]
    · intro pre j post hsplit hj
      rcases split_snoc c.qb pre post k j hsplit with ⟨post', h1, _⟩ | ⟨_, h2, _⟩
      · exact h.nb pre j post' h1 hj
      · rw [h2, hc] at hj; cases hj
    · exact h.ia
    · intro _; exact hnid
  | false =>
    have hsame : (stepShape c.sb k.send).2 = c.sb := neutral_send_same c.sb k _ hgood.2 hc hm
    refine ⟨?_, ?_, ?_, ?_, ?_⟩
    · have : erase { c with sb := (stepShape c.sb k.send).2, qb := c.qb ++ [k] } = erase c := by
        simp only [erase, er_append, er_single_neutral k hc, List.append_nil, hsame]
      rw [this]; exact h.red
    · intro pre i post hsplit hi
      obtain ⟨f, hf, hfb, hfq, hfm⟩ := h.na pre i post hsplit hi
      exact ⟨f, hf, by rw [hfb]; exact hsame.symm, hfq, hfm⟩
    · intro pre j post hsplit hj
      rcases split_snoc c.qb pre post k j hsplit with ⟨post', h1, _⟩ | ⟨h1, h2, _⟩
      · exact h.nb pre j post' h1 hj
      · refine ⟨erase c, h.red, rfl, by rw [h1]; rfl, ?_⟩
        rw [h2]
        exact or_of_flag _ _ _ hm
    · exact h.ia
    · intro _; exact hnid

/-- the oldest frame from A is delivered to B: it is fine, and the invariant holds afterwards -/
theorem inv_delA (c : Cfg) (h : Inv c) (i : Fr) (rest : List Fr) (hq : c.qa = i :: rest) :
    fine c.sb i.recv = true ∧ Inv { c with sb := (stepShape c.sb i.recv).2, qa := rest } := by
  cases hc : i.changing with
  | true =>
    have hqe : (erase c).qa = i :: er rest := by show er c.qa = _; rw [hq, er_cons_changing i rest hc]
    have hstep := r0_step (erase c) _ h.red (List.mem_append_right _ (mem_delA (erase c) i (er rest) hqe))
    refine ⟨hstep.1, ?_, ?_, ?_, ?_, ?_⟩
    · exact hstep.2
    · intro pre j post hsplit hj
      have hfull : c.qa = (i :: pre) ++ j :: post := by rw [hq]; show i :: rest = i :: (pre ++ j :: post); rw [show rest = pre ++ j :: post from hsplit]
      obtain ⟨f, hf, hfb, hfq, hfm⟩ := h.na (i :: pre) j post hfull hj
      have hfq' : f.qa = i :: er pre := by rw [hfq, er_cons_changing i pre hc]
      have hstep2 := r0_step f _ hf (List.mem_append_right _ (mem_delA f i (er pre) hfq'))
      refine ⟨_, hstep2.2, ?_, rfl, hfm⟩
      show (stepShape f.sb i.recv).2 = (stepShape c.sb i.recv).2
      rw [hfb]
    · intro pre k post hsplit hk
      exact h.nb pre k post hsplit hk
    · intro hne
      exact h.ia (by rw [hq]; simp)
    · intro hne
      exact recv_stays_non_idle _ _ (h.ib hne)
  | false =>
    obtain ⟨f, hf, hfb, hfq, hfm⟩ := h.na [] i rest (by rw [hq]; rfl) hc
    have hs3 := s3a_use f hf (by rw [hfq]; rfl) i hc hfm
    rw [hfb] at hs3
    refine ⟨hs3.1, ?_, ?_, ?_, ?_, ?_⟩
    · have : erase { c with sb := (stepShape c.sb i.recv).2, qa := rest } = erase c := by
        simp only [erase, hs3.2, hq, er_cons_neutral i rest hc]
      rw [this]; exact h.red
    · intro pre j post hsplit hj
      have hfull : c.qa = (i :: pre) ++ j :: post := by rw [hq]; show i :: rest = i :: (pre ++ j :: post); rw [show rest = pre ++ j :: post from hsplit]
      obtain ⟨f2, hf2, hfb2, hfq2, hfm2⟩ := h.na (i :: pre) j post hfull hj
      exact ⟨f2, hf2, by rw [hfb2]; exact hs3.2.symm, by rw [hfq2, er_cons_neutral i pre hc], hfm2⟩
    · intro pre k post hsplit hk
      exact h.nb pre k post hsplit hk
    · intro hne
      exact h.ia (by rw [hq]; simp)
    · intro hne
      show (stepShape c.sb i.recv).2.state ≠ .IDLE
      rw [hs3.2]; exact h.ib hne

/-- the oldest frame from B is delivered to A -/
theorem inv_delB (c : Cfg) (h : Inv c) (k : Fr) (rest : List Fr) (hq : c.qb = k :: rest) :
    fine c.sa k.recv = true ∧ Inv { c with sa := (stepShape c.sa k.recv).2, qb := rest } := by
  cases hc : k.changing with
  | true =>
    have hqe : (erase c).qb = k :: er rest := by show er c.qb = _; rw [hq, er_cons_changing k rest hc]
    have hstep := r0_step (erase c) _ h.red (List.mem_append_right _ (mem_delB (erase c) k (er rest) hqe))
    refine ⟨hstep.1, ?_, ?_, ?_, ?_, ?_⟩
    · exact hstep.2
    · intro pre i post hsplit hi
      exact h.na pre i post hsplit hi
    · intro pre j post hsplit hj
      have hfull : c.qb = (k :: pre) ++ j :: post := by rw [hq]; show k :: rest = k :: (pre ++ j :: post); rw [show rest = pre ++ j :: post from hsplit]
      obtain ⟨f, hf, hfa, hfq, hfm⟩ := h.nb (k :: pre) j post hfull hj
      have hfq' : f.qb = k :: er pre := by rw [hfq, er_cons_changing k pre hc]
      have hstep2 := r0_step f _ hf (List.mem_append_right _ (mem_delB f k (er pre) hfq'))
      refine ⟨_, hstep2.2, ?_, rfl, hfm⟩
      show (stepShape f.sa k.recv).2 = (stepShape c.sa k.recv).2
      rw [hfa]
    · intro hne
      exact recv_stays_non_idle _ _ (h.ia hne)
    · intro hne
      exact h.ib (by rw [hq]; simp)
  | false =>
    obtain ⟨f, hf, hfa, hfq, hfm⟩ := h.nb [] k rest (by rw [hq]; rfl) hc
    have hs3 := s3b_use f hf (by rw [hfq]; rfl) k hc hfm
    rw [hfa] at hs3
    refine ⟨hs3.1, ?_, ?_, ?_, ?_, ?_⟩
    · have : erase { c with sa := (stepShape c.sa k.recv).2, qb := rest } = erase c := by
        simp only [erase, hs3.2, hq, er_cons_neutral k rest hc]
      rw [this]; exact h.red
    · intro pre i post hsplit hi
      exact h.na pre i post hsplit hi
    · intro pre j post hsplit hj
      have hfull : c.qb = (k :: pre) ++ j :: post := by rw [hq]; show k :: rest = k :: (pre ++ j :: post); rw [show rest = pre ++ j :: post from hsplit]
      obtain ⟨f2, hf2, hfa2, hfq2, hfm2⟩ := h.nb (k :: pre) j post hfull hj
      exact ⟨f2, hf2, by rw [hfa2]; exact hs3.2.symm, by rw [hfq2, er_cons_neutral k pre hc], hfm2⟩
    · intro hne
      show (stepShape c.sa k.recv).2.state ≠ .IDLE
      rw [hs3.2]; exact h.ia hne
    · intro hne
      exact h.ib (by rw [hq]; simp)

/-- one step of the full system from a configuration satisfying the invariant: the step is fine and the invariant
    holds afterwards -/
theorem inv_step (c : Cfg) (h : Inv c) (p : Cfg × Bool) (hp : p ∈ succsF c) : p.2 = true ∧ Inv p.1 := by
  rcases succsF_cases c p hp with ⟨i, hm, rfl⟩ | ⟨k, hm, rfl⟩ | ⟨i, rest, hq, rfl⟩ | ⟨k, rest, hq, rfl⟩
  · exact ⟨rfl, inv_sendA c h i hm⟩
  · exact ⟨rfl, inv_sendB c h k hm⟩
  · exact inv_delA c h i rest hq
  · exact inv_delB c h k rest hq

theorem reachF_inv (c : Cfg) (h : ReachF c) : Inv c := by
  induction h with
  | init => exact inv_init
  | step c c' ok _ hs ih => exact (inv_step c ih (c', ok) hs).2

/-- **the two stream state machines, all frame kinds, queues of any length, any interleaving**: in every reachable
    configuration every possible step is fine.  For a delivery that means: the frame at the head of a queue, which the
    sender's machine allowed when it was sent, is accepted by the receiver's machine — or the receiver has closed the
    stream meanwhile and deals with it quietly; never a connection error, never a stream error on a live stream.
    (The sender only sends what its machine accepts, and not D17b's DATA / END_STREAM before response headers.) -/
theorem full_never_refused (c : Cfg) (h : ReachF c) : ∀ p ∈ succsF c, p.2 = true :=
  fun p hp => (inv_step c (reachF_inv c h) p hp).1

/-- spelled out for a delivery -/
theorem full_delivery_fine (c : Cfg) (h : ReachF c) (i : Fr) (rest : List Fr) (hq : c.qa = i :: rest) :
    fine c.sb i.recv = true :=
  (inv_delA c (reachF_inv c h) i rest hq).1

/-- non-vacuity: a client that has sent a request, body bytes and END_STREAM, none of it delivered yet -/
example : ReachF { sa := { state := .HALF_CLOSED_LOCAL, client := some true, headersSent := true }, sb := {},
                   qa := [.headers, .data, .endStream], qb := [] } := by
  have h1 : ReachF { sa := { state := .OPEN, client := some true, headersSent := true }, sb := {},
                     qa := [.headers], qb := [] } := ReachF.step init _ true ReachF.init (by decide)
  have h2 : ReachF { sa := { state := .OPEN, client := some true, headersSent := true }, sb := {},
                     qa := [.headers, .data], qb := [] } := ReachF.step _ _ true h1 (by decide)
  exact ReachF.step _ _ true h2 (by decide)

end PairFsm
end H2
