#!/bin/sh
# try_seed.sh <seed-name> <pid> [pid...] : apply seeded/<seed>/patch.diff to /repo, run the checks, undo.
# The evidence files of the checks are saved before and put back afterwards: evidence/ must describe the unchanged tree.
S=$1; shift
BK=$(mktemp -d /var/tmp/evidence_bk.XXXXXX)
cp -a /verif/evidence/. $BK/ 2>/dev/null
git -C /repo apply /verif/seeded/$S/patch.diff || { rm -rf $BK; exit 2; }
for p in "$@"; do
  (cd /verif && timeout 1500 ./check $p --tier quick 2>&1 | grep -E "VIOLATION|KNOWN|-> " | sed "s/^/[$S] /")
done
git -C /repo checkout -- .
cp -a $BK/. /verif/evidence/ 2>/dev/null; rm -rf $BK
# restore generated files to the unchanged tree's
(cd /verif && /venv/bin/python tools/gen_tables.py lean/H2/Gen/Tables.lean work/gen_summary.json && /venv/bin/python tools/py2lean.py lean/H2/Gen/WindowsRaw.lean >/dev/null)
