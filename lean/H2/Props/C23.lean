/-
  C23 — priority information round-trips and never changes stream state.
-/
import H2.Proofs.Bytes
import H2.Proofs.Send

namespace H2.C23
open H2 H2.Gen H2.Conn

/-- the acceptance condition of the property, as a decision -/
def priorityOk (sid : Int) (w d : Option Int) : Bool :=
  decide (1 ≤ sid ∧ sid ≤ 2147483647) &&
  (match d with | some x => decide (0 ≤ x ∧ x ≤ 2147483647 ∧ x ≠ sid) | none => true) &&
  (match w with | some x => decide (1 ≤ x ∧ x ≤ 256) | none => true)

/-- **acceptance**: the priority arguments are accepted exactly when the stream id is a valid stream id, the weight
    (if given) lies in 1..256, the dependency (if given) is a stream id or 0, and the stream does not depend on itself -/
theorem C23_check_iff (sid : Int) (w d : Option Int) :
    checkPriority sid w d = (if priorityOk sid w d then .ok () else .error pErr) := by
  unfold checkPriority priorityOk
  simp only [HIGHEST_ALLOWED_STREAM_ID]
  rcases d with _ | x <;> rcases w with _ | y <;> grind

/-- defaults: weight 16 (15 on the wire), depends on 0, not exclusive -/
theorem C23_defaults (sid : Int) (h : 1 ≤ sid ∧ sid ≤ 2147483647) :
    framePriority sid none none none = .ok { weight := 15, dependsOn := 0, exclusive := false } := by
  simp [framePriority, checkPriority, HIGHEST_ALLOWED_STREAM_ID, bind, Except.bind, h.1, h.2, pure, Except.pure]

/-- only clients may prioritise -/
theorem C23_server_refused (c : Conn) (sid : Int) w d e (hsrv : c.cfg.client = false) :
    wp (prioritize sid w d e) (fun _ _ => False) (fun _ c' => c' = c) c := by
  simp only [prioritize]; wps; simp [hsrv]

/-- **round trip**: what `_add_frame_priority` puts on the wire is parsed back to the same weight, dependency and
    exclusive flag by the receiving side -/
theorem C23_roundtrip (sid : Nat) (w dep : Nat) (excl : Bool) (hw : w < 256) (hd : dep < 2147483648) :
    let p : Prio := { weight := w, dependsOn := dep, exclusive := excl }
    ∃ body, (Frame.priority sid p).body? = some body ∧
      parseBody { length := body.length, type := 2, flags := 0, sid := sid } body = .ok { frame := .priority sid p } := by
  intro p
  let n : Nat := dep + (if excl then 2147483648 else 0)
  have hn : n < 4294967296 := by simp only [n]; split <;> omega
  have hcast : (p.dependsOn + (if p.exclusive then 2147483648 else 0) : Int) = (n : Int) := by
    simp only [p, n]; split <;> omega
  have hb : (Frame.priority sid p).body? = some (be32 n ++ [UInt8.ofNat w]) := by
    show (prioBytes? p) = _
    unfold prioBytes?
    rw [hcast, u32?_nat n hn]
    have h8 : u8? p.weight = some [UInt8.ofNat w] := u8?_nat w hw
    simp only [h8, bind, Option.bind, pure]
  refine ⟨_, hb, ?_⟩
  have hlen : (be32 n ++ [UInt8.ofNat w]).length = 5 := by simp [be32]
  have htake : (be32 n ++ [UInt8.ofNat w]).take 4 = be32 n := by simp [be32]
  have hdrop : (be32 n ++ [UInt8.ofNat w]).drop 4 = [UInt8.ofNat w] := by simp [be32]
  simp only [parseBody, hlen, htake, hdrop, bne_self_eq_false, Bool.false_eq_true, if_false, List.headD_cons,
    rd32_be32 n hn, u8_toNat_ofNat]
  have hwm : w % 256 = w := Nat.mod_eq_of_lt hw
  have h1 : ((n : Int) % 2147483648) = (dep : Int) := by simp only [n]; split <;> omega
  have h2 : decide (n / 2147483648 = 1) = excl := by
    simp only [n]; cases excl <;> simp <;> omega
  simp only [hwm, h1, h2, p]

/-- **received PRIORITY**: in any connection state before close, the frame yields exactly one PriorityUpdated with
    the frame's weight (+1), dependency and exclusive flag, emits nothing, and leaves every stream and every
    flow-control window exactly as it was; a self-dependency is a ProtocolError -/
theorem C23_recv (c : Conn) (sid : Int) (p : Prio) (hopen : c.cstate ≠ .CLOSED) :
    wp (receivePriorityFrame sid p)
      (fun r c' => p.dependsOn ≠ sid ∧ r = ([], [Event.PriorityUpdated sid (p.weight + 1) p.dependsOn p.exclusive]) ∧
                   c' = c)
      (fun e c' => p.dependsOn = sid ∧ c' = c) c := by
  have htab : connTable c.cstate .RECV_PRIORITY = some c.cstate := by
    cases h : c.cstate <;> simp_all [connTable]
  simp only [receivePriorityFrame]
  wps
  rw [wp_connInput_ok _ _ _ htab]
  have hc : ({ c with cstate := c.cstate } : Conn) = c := by cases c; rfl
  split <;> simp_all

/-- attached to a request: HEADERS with the PRIORITY flag marks the request event and appends the PriorityUpdated -/
theorem C23_attached (evs : List Event) (k : HdrKind) (sid : Int) (hs : List Header) (se pu : Bool) (rest : List Event) :
    setPriorityUpdated (Event.Headers k sid hs se pu :: rest) = Event.Headers k sid hs se true :: rest := rfl

/-- non-vacuity -/
example : priorityOk 3 (some 256) (some 1) = true ∧ priorityOk 3 (some 257) none = false ∧
    priorityOk 3 none (some 3) = false ∧ priorityOk 3 none (some 2147483648) = false := by decide

end H2.C23
