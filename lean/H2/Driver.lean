/-
  Line-protocol front end of the model (see harness/proto.py for the syntax).
  Parses one op per line, runs `Conn.step`, prints the canonical observation.
-/
import H2.Model.Step

namespace H2.Driver
open H2 H2.Gen

/-! ### lexical helpers -/

def hexDigit (c : Char) : Option Nat :=
  if '0' ≤ c ∧ c ≤ '9' then some (c.toNat - 48)
  else if 'a' ≤ c ∧ c ≤ 'f' then some (c.toNat - 87)
  else if 'A' ≤ c ∧ c ≤ 'F' then some (c.toNat - 55) else none

def unhexList : List Char → Option Bytes
  | [] => some []
  | a :: b :: rest => do
    let x ← hexDigit a; let y ← hexDigit b
    let t ← unhexList rest
    pure (UInt8.ofNat (x * 16 + y) :: t)
  | _ => none

/-- '.' = empty, hex otherwise -/
def unhex (s : String) : Option Bytes := if s == "." then some [] else unhexList s.toList

/-- '-' = None -/
def unhexOpt (s : String) : Option (Option Bytes) := if s == "-" then some none else (unhex s).map some

def hexNib (n : Nat) : Char := if n < 10 then Char.ofNat (48 + n) else Char.ofNat (87 + n)

def hex (b : Bytes) : String :=
  if b.isEmpty then "." else String.ofList (b.foldr (fun c acc => hexNib (c.toNat / 16) :: hexNib (c.toNat % 16) :: acc) [])

def hexOpt : Option Bytes → String
  | none => "-"
  | some b => hex b

def intOpt? (s : String) : Option (Option Int) := if s == "-" then some none else s.toInt?.map some
def boolOpt? (s : String) : Option (Option Bool) :=
  if s == "-" then some none else if s == "T" then some (some true) else if s == "F" then some (some false) else none
def bool? (s : String) : Option Bool := if s == "T" then some true else if s == "F" then some false else none

def optStr (o : Option Int) : String := match o with | none => "-" | some v => toString v
def boolStr (b : Bool) : String := if b then "T" else "F"

def parseHStr (s : String) : Option HStr :=
  match s.toList with
  | 'b' :: rest => (unhex (String.ofList rest)).map HStr.b
  | 's' :: rest => (unhex (String.ofList rest)).map HStr.s
  | _ => none

def parseHeader (s : String) : Option Header :=
  match s.splitOn ":" with
  | [n, v, f] => do
    let n ← parseHStr n; let v ← parseHStr v
    pure { name := n, value := v, ni := f == "N" }
  | _ => none

def parseHeaders (s : String) : Option (List Header) :=
  if s == "." then some [] else (s.splitOn ",").mapM parseHeader

def parseSettings (s : String) : Option (List (Int × Int)) :=
  if s == "." then some [] else (s.splitOn ",").mapM fun kv =>
    match kv.splitOn "=" with
    | [k, v] => do let k ← k.toInt?; let v ← v.toInt?; pure (k, v)
    | _ => none

def fmtHStr (h : HStr) : String := (if h.isStr then "s" else "b") ++ hex h.bs
def fmtHeader (h : Header) : String := fmtHStr h.name ++ ":" ++ fmtHStr h.value ++ ":" ++ (if h.ni then "N" else "I")
def fmtHeaders (hs : List Header) : String := if hs.isEmpty then "." else ",".intercalate (hs.map fmtHeader)

/-! ### observation printing -/

def relIndex (evs : List Event) (pos : Nat) (want : Event → Bool) : String :=
  match ((evs.zipIdx.drop (pos + 1)).find? fun (e, _) => want e) with
  | some (_, i) => toString i
  | none => "ext"

def fmtChanges (cs : List (Int × Option Int × Int)) : String :=
  if cs.isEmpty then "." else ",".intercalate (cs.map fun (k, o, n) => s!"{k}={optStr o}>{n}")

def fmtEvent (evs : List Event) (pos : Nat) (e : Event) : String :=
  match e with
  | .Headers kind sid hs se pu =>
    let k := match kind with
      | .request => "RequestReceived" | .response => "ResponseReceived"
      | .trailers => "TrailersReceived" | .informational => "InformationalResponseReceived"
    let seS := if se then relIndex evs pos (fun x => x == Event.StreamEnded sid) else "-"
    let puS := if pu then relIndex evs pos (fun x => match x with | .PriorityUpdated s .. => s == sid | _ => false) else "-"
    s!"{k}({sid};{fmtHeaders hs};se={seS};pu={puS})"
  | .DataReceived sid d fcl se =>
    let seS := if se then relIndex evs pos (fun x => x == Event.StreamEnded sid) else "-"
    s!"DataReceived({sid};{hex d};{fcl};se={seS})"
  | .WindowUpdated sid d => s!"WindowUpdated({sid};{optStr d})"
  | .RemoteSettingsChanged cs => s!"RemoteSettingsChanged({fmtChanges cs})"
  | .SettingsAcknowledged cs => s!"SettingsAcknowledged({fmtChanges cs})"
  | .PingReceived d => s!"PingReceived({hex d})"
  | .PingAckReceived d => s!"PingAckReceived({hex d})"
  | .StreamEnded sid => s!"StreamEnded({sid})"
  | .StreamReset sid code remote => s!"StreamReset({sid};{optStr code};{boolStr remote})"
  | .PushedStreamReceived p parent hs => s!"PushedStreamReceived({optStr p};{parent};{fmtHeaders hs})"
  | .PriorityUpdated sid w d ex => s!"PriorityUpdated({sid};{w};{d};{boolStr ex})"
  | .ConnectionTerminated code last extra => s!"ConnectionTerminated({code};{last};{hexOpt extra})"
  | .AlternativeServiceAvailable o f => s!"AlternativeServiceAvailable({hexOpt o};{hexOpt f})"
  | .UnknownFrameReceived t fl sid body => s!"UnknownFrameReceived({t};{fl};{sid};{hex body})"

def fmtRes : Res → String
  | .ok .none => "ok -"
  | .ok (.int n) => s!"ok {n}"
  | .ok (.bytes b) => s!"ok {hex b}"
  | .h2 c code sid => s!"exc {c.name} {optStr code} {optStr sid}"
  | .py k => s!"py {k.name}"

def fmtEnc : EncEv → String
  | .block hs => s!"Ec[{fmtHeaders hs}]"
  | .resize n => s!"S{n}"

def peek (c : Conn) : String :=
  s!"st={c.streams.length},{c.closedStreams.length},{c.cstate.name},{c.highestIn},{c.highestOut},{c.outWin},{c.inWM.current_window_size},{c.inWM.max_window_size},{c.maxOutFrame},{c.maxInFrame},{c.fb.data.length},{c.fb.headersBuffer.length},{c.inWM.bytes_processed}"

def peekStreams (c : Conn) : String :=
  if c.streams.isEmpty then "." else ";".intercalate (c.streams.map fun (sid, st) =>
    let sm := st.sm
    let b := fun (x : Bool) => if x then "1" else "0"
    let cl := match sm.client with | some true => "T" | some false => "F" | none => "-"
    let cb := match sm.closedBy with | some x => x.name | none => "-"
    s!"{sid}:{sm.state.name}:{cb}:{st.outWin}:{st.inWM.current_window_size}:{st.inWM.max_window_size}:{b sm.headersSent}{b sm.trailersSent}{b sm.headersReceived}{b sm.trailersReceived}{cl}:{optStr st.expectedCL}:{st.actualCL}:{st.inWM.bytes_processed}")

def fmtObs (before after : Conn) (consumesOut : Bool) (o : Obs) : String :=
  let evs := o.events
  let evS := if evs.isEmpty then "." else " ".intercalate (evs.zipIdx.map fun (e, i) => fmtEvent evs i e)
  let outS := if consumesOut then "~"
    else if before.out.isPrefixOf after.out then "+" ++ hex (after.out.drop before.out.length)
    else "=" ++ hex after.out
  let newEnc := after.hp.encLog.drop before.hp.encLog.length
  let encS := if newEnc.isEmpty then "." else " ".intercalate (newEnc.map fmtEnc)
  let miss := (if after.hp.oracleMiss then " | ORACLE-MISS" else "")
    ++ (if !after.hp.encOracle.isEmpty || !after.hp.decOracle.isEmpty then " | ORACLE-LEFT" else "")
  s!"{fmtRes o.res} | ev {evS} | out {outS} | enc {encS} | {peek after} | ss={peekStreams after}{miss}"

/-! ### op parsing -/

def parseDecRes (s : String) : Option DecRes :=
  if s == "oversized" then some .oversized
  else if s == "hpack" then some .hpackError
  else match s.splitOn "/" with
    | ["ok", hs] => (parseHeaders hs).map DecRes.ok
    | ["py", n] => some (.py n)
    | _ => none

structure Annex where
  enc : List Bytes := []
  dec : List DecRes := []

def parseAnnexPart (a : Annex) (part : String) : Option Annex :=
  match part.trimAscii.toString.splitOn " " with
  | "E" :: _ :: items => do let bs ← items.mapM unhex; pure { a with enc := bs }
  | "D" :: _ :: items => do let ds ← items.mapM parseDecRes; pure { a with dec := ds }
  | _ => none

def parseCall (toks : List String) : Option Op :=
  match toks with
  | ["initiate_connection"] => some .initiateConnection
  | ["initiate_upgrade", h] => do let h ← unhexOpt h; pure (.initiateUpgrade h)
  | ["send_headers", sid, hs, es, pw, pd, pe] => do
    let sid ← sid.toInt?; let hs ← parseHeaders hs; let es ← bool? es
    let pw ← intOpt? pw; let pd ← intOpt? pd; let pe ← boolOpt? pe
    pure (.sendHeaders sid hs es pw pd pe)
  | ["send_data", sid, d, es, pad] => do
    let sid ← sid.toInt?; let d ← unhex d; let es ← bool? es; let pad ← intOpt? pad
    pure (.sendData sid d es pad)
  | ["end_stream", sid] => do let sid ← sid.toInt?; pure (.endStream sid)
  | ["incr_window", i, sid] => do let i ← i.toInt?; let sid ← intOpt? sid; pure (.incrementWindow i sid)
  | ["push_stream", sid, p, hs] => do
    let sid ← sid.toInt?; let p ← p.toInt?; let hs ← parseHeaders hs; pure (.pushStream sid p hs)
  | ["ping", d] => do let d ← unhex d; pure (.ping d)
  | ["reset_stream", sid, code] => do let sid ← sid.toInt?; let code ← code.toInt?; pure (.resetStream sid code)
  | ["close_connection", code, extra, last] => do
    let code ← code.toInt?; let extra ← unhexOpt extra; let last ← intOpt? last
    pure (.closeConnection code extra last)
  | ["update_settings", s] => do let s ← parseSettings s; pure (.updateSettings s)
  | ["altsvc", f, o, sid] => do let f ← unhex f; let o ← unhexOpt o; let sid ← intOpt? sid; pure (.altsvc f o sid)
  | ["prioritize", sid, w, d, e] => do
    let sid ← sid.toInt?; let w ← intOpt? w; let d ← intOpt? d; let e ← boolOpt? e; pure (.prioritize sid w d e)
  | ["ack_data", size, sid] => do let size ← size.toInt?; let sid ← sid.toInt?; pure (.ackData size sid)
  | ["data_to_send", n] => do let n ← intOpt? n; pure (.dataToSend n)
  | ["clear_out"] => some .clearOut
  | _ => none

def parseQuery (what sid : String) : Option Op := do
  let sid ← intOpt? sid
  match what with
  | "local_window" => pure (.query (.localWindow (sid.getD 0)))
  | "remote_window" => pure (.query (.remoteWindow (sid.getD 0)))
  | "next_stream_id" => pure (.query .nextStreamId)
  | "open_out" => pure (.query .openOut)
  | "open_in" => pure (.query .openIn)
  | "inbound_window" => pure (.query .inboundWindow)
  | _ => none

def parseNew (toks : List String) : Option Config :=
  match toks with
  | role :: vo :: no :: vi :: ni :: enc :: _ =>
    let flag := fun (s : String) => s.endsWith "=1"
    some { client := role == "client", valOut := flag vo, normOut := flag no, valIn := flag vi, normIn := flag ni,
           enc := if enc == "enc=utf-8" then .utf8 else .none }
  | _ => none

/-- `conn.local_settings = Settings(client=..., initial_values=ls)`: the defaults with the given values replaced (same
    position) or appended -/
def withLocalSettings (c : Conn) (ls : List (Int × Int)) : Conn :=
  if ls.isEmpty then c else
  -- a fresh `Settings(client=...)` has the library defaults only (what the peer's view starts from), not the
  -- MAX_CONCURRENT_STREAMS / MAX_HEADER_LIST_SIZE that H2Connection.__init__ adds to its own object
  let base := Settings.ofInit (if c.cfg.client then Gen.server_remote_settings else Gen.client_remote_settings)
  { c with localSettings := ls.foldl (fun s kv =>
      if s.any (fun e => e.1 == kv.1) then s.map (fun e => if e.1 == kv.1 then (e.1, [some kv.2]) else e)
      else s ++ [(kv.1, [some kv.2])]) base }

def parseNewLs (toks : List String) : Option (List (Int × Int)) :=
  match toks.drop 6 with
  | [] => some []
  | [t] => if t.startsWith "ls=" then parseSettings (t.drop 3).toString else none
  | _ => none

abbrev World := List (Nat × Conn)

def World.get (w : World) (cid : Nat) : Option Conn := w.lookup cid
def World.set (w : World) (cid : Nat) (c : Conn) : World :=
  if w.any (fun e => e.1 == cid) then w.map (fun e => if e.1 == cid then (cid, c) else e) else w ++ [(cid, c)]

def withOracles (c : Conn) (a : Annex) : Conn :=
  { c with hp := { c.hp with encOracle := a.enc, decOracle := a.dec, oracleMiss := false } }

/-- process one line; returns the new world and the line to print -/
def processLine (w : World) (line : String) : World × String :=
  let parts := line.splitOn " | "
  let main := (parts.headD "").trimAscii.toString
  let annex := (parts.drop 1).foldl (fun a p => (parseAnnexPart a p).getD a) ({} : Annex)
  match main.splitOn " " with
  | "new" :: cid :: rest =>
    match cid.toNat?, parseNew rest, parseNewLs rest with
    | some cid, some cfg, some ls => (w.set cid (withLocalSettings (Conn.init cfg) ls), "ok")
    | _, _, _ => (w, "bad-op")
  | "call" :: cid :: rest =>
    match cid.toNat?, parseCall rest with
    | some cid, some op =>
      match w.get cid with
      | none => (w, "bad-conn")
      | some c =>
        let c0 := withOracles c annex
        let (c1, o) := Conn.step c0 op
        let consumes := match op with | .dataToSend _ | .clearOut => true | _ => false
        (w.set cid c1, fmtObs c0 c1 consumes o)
    | _, _ => (w, "bad-op")
  | ["q", cid, what, sid] =>
    match cid.toNat?, parseQuery what sid with
    | some cid, some op =>
      match w.get cid with
      | none => (w, "bad-conn")
      | some c =>
        let c0 := withOracles c annex
        let (c1, o) := Conn.step c0 op
        (w.set cid c1, fmtObs c0 c1 false o)
    | _, _ => (w, "bad-op")
  | ["recv", cid, d] =>
    match cid.toNat?, unhex d with
    | some cid, some d =>
      match w.get cid with
      | none => (w, "bad-conn")
      | some c =>
        let c0 := withOracles c annex
        let (c1, o) := Conn.step c0 (.recv d)
        (w.set cid c1, fmtObs c0 c1 false o)
    | _, _ => (w, "bad-op")
  | ["xfer", a, b, n] =>
    match a.toNat?, b.toNat?, intOpt? n with
    | some a, some b, some n =>
      match w.get a with
      | none => (w, "bad-conn")
      | some ca =>
        let (ca', oa) := Conn.step ca (.dataToSend n)
        let w := w.set a ca'
        match oa.res, w.get b with
        | .ok (.bytes d), some cb =>
          let c0 := withOracles cb annex
          let (c1, o) := Conn.step c0 (.recv d)
          (w.set b c1, fmtObs c0 c1 false o)
        | _, _ => (w, "bad-conn")
    | _, _, _ => (w, "bad-op")
  | ["reset"] => ([], "ok")
  | _ => (w, "bad-op")

end H2.Driver
