/-
  C22 — server push rules are enforced on both ends.
-/
import H2.Proofs.RecvEmits
import H2.Props.C09

namespace H2.C22
open H2 H2.Gen H2.Conn

/-! ### sending -/

/-- the client has disabled push (its acknowledged ENABLE_PUSH is 0): `push_stream` raises ProtocolError and nothing
    at all changes -/
theorem C22_push_disabled (sid promised : Int) (hs : List Header) (c : Conn)
    (h : c.remoteSettings.enablePush = some 0) : pushStream sid promised hs c = (.error pErr, c) := by
  unfold pushStream
  simp only [bind, M.bind, getS, h, beq_self_eq_true, if_true]; rfl

/-- pushes on pushed streams are refused: an even parent id is a ProtocolError before any stream is created -/
theorem C22_no_recursive_push (sid promised : Int) (hs : List Header) (c : Conn) (heven : sid % 2 = 0) :
    wp (pushStream sid promised hs) (fun _ _ => False)
      (fun _ c' => c'.streams = c.streams ∧ c'.sent = c.sent ∧ c'.out = c.out ∧ c'.highestOut = c.highestOut) c := by
  unfold pushStream
  have hev : (sid % 2 == 0) = true := by simp [heven]
  wps
  cases c.remoteSettings.enablePush with
  | none => exact ⟨rfl, rfl, rfl, rfl⟩
  | some ep =>
    simp only
    by_cases hep : (ep == 0) = true
    · simp only [hep, if_true]; exact ⟨rfl, rfl, rfl, rfl⟩
    · simp only [hep, Bool.false_eq_true, if_false]
      wps
      cases ht : connTable c.cstate .SEND_PUSH_PROMISE with
      | none => rw [wp_connInput_err _ _ ht]; exact ⟨rfl, rfl, rfl, rfl⟩
      | some t =>
        rw [wp_connInput_ok _ _ _ ht]
        wps
        rw [wp_getStreamById_eq]
        simp only [hev, if_true]
        repeat' split
        all_goals (refine ⟨?_, ?_, ?_, ?_⟩ <;> first | rfl | trivial)

/-- the parent must be a stream the client opened that is open or half-closed(remote), at a server: exactly there
    does the stream state machine accept SEND_PUSH_PROMISE (decided over the generated table, reachable shapes), and
    it leaves the parent's state alone -/
def pushParentOk (sh : Shape) : Bool :=
  sh.client == some false && (sh.state == .OPEN || sh.state == .HALF_CLOSED_REMOTE)

theorem C22_parent_states : ∀ sh, (!Good sh || sh.state == .IDLE ||
    (okStep sh .SEND_PUSH_PROMISE == pushParentOk sh)) = true := forall_shape (by decide +kernel)

theorem C22_parent_unchanged : ∀ sh, (!Good sh || !pushParentOk sh ||
    ((stepShape sh .SEND_PUSH_PROMISE).2 == sh)) = true := forall_shape (by decide +kernel)

/-- the promised stream starts reserved(local) and then carries only a response: the new stream accepts
    SEND_HEADERS (the response) and nothing else that opens it; a push on it is refused -/
theorem C22_promised_stream :
    (stepShape {} .SEND_PUSH_PROMISE).1 = .ok [] ∧ (stepShape {} .SEND_PUSH_PROMISE).2.state = .RESERVED_LOCAL ∧
    okStep (stepShape {} .SEND_PUSH_PROMISE).2 .SEND_PUSH_PROMISE = false ∧
    okStep (stepShape {} .SEND_PUSH_PROMISE).2 .SEND_DATA = false ∧
    okStep (stepShape {} .SEND_PUSH_PROMISE).2 .SEND_HEADERS = true := by decide

/-- the promised id: `_begin_new_stream(promised, EVEN)` — even, above every id the server has used, at most 2^31-1
    (C09_begin) -/
theorem C22_promised_id (promised : Int) (c : Conn) :
    wp (beginNewStream promised false)
      (fun _ c' => promised % 2 = 0 ∧ promised ≤ HIGHEST_ALLOWED_STREAM_ID ∧
        (if streamIdIsOutbound c promised then c.highestOut < promised else c.highestIn < promised))
      (fun _ c' => c' = c) c := by
  refine wp_mono (C09.C09_begin promised false c) ?_ ?_
  · intro _ c' h
    refine ⟨by simpa using h.2.1, h.2.2.1, ?_⟩
    split <;> rename_i hob <;> simp only [hob, if_true, if_false, Bool.false_eq_true] at h <;> exact h.1.1
  · intro e c' h; exact h

/-! ### receiving -/

/-- a client that has disabled push treats PUSH_PROMISE as a connection error — before the header block is even
    decoded, and with nothing changed -/
theorem C22_recv_disabled (sid promised : Int) (block : Bytes) (c : Conn) (h : c.localSettings.enablePush = some 0) :
    receivePushPromiseFrame sid promised block c = (.error pErr, c) := by
  unfold receivePushPromiseFrame
  simp only [bind, M.bind, getS, h, beq_self_eq_true, if_true]; rfl

/-- a PUSH_PROMISE on a pushed (even) stream is a connection error: no stream is created, no event reported -/
theorem C22_recv_no_recursive (sid promised : Int) (hs : List Header) (c : Conn) (heven : sid % 2 = 0) :
    receivePushPromiseKnown sid promised hs c = (.error pErr, c) := by
  unfold receivePushPromiseKnown
  have : (sid % 2 == 0) = true := by simp [heven]
  simp only [this, if_true]; rfl

def pushEvOk (sh : Shape) : Bool :=
  match (stepShape sh .RECV_PUSH_PROMISE).1 with
  | .ok (e :: _) => e == .PushedStreamReceived
  | _ => true
theorem tbl_push_event : ∀ sh, pushEvOk sh = true := forall_shape (by decide +kernel)

theorem processInput_ok_inv (i : StreamInputs) (st : Stream) (evs : List SEv) (s1 : Stream)
    (hp : processInput i st = (.ok evs, s1)) :
    s1.sid = st.sid ∧ ∃ sh, stepShape st.sm.sh i = (.ok evs, sh) := by
  unfold processInput onSM zoom SM.process at hp
  simp only at hp
  cases hs : stepShape st.sm.sh i with
  | mk pr sh =>
    rw [hs] at hp
    cases pr with
    | ok evs' =>
      simp only [Prod.mk.injEq, Except.ok.injEq] at hp
      obtain ⟨h1, h2⟩ := hp
      subst h1
      exact ⟨by rw [← h2]; rfl, sh, rfl⟩
    | proto => simp at hp
    | streamClosed w => simp at hp

/-- the event: PushedStreamReceived with the promised id, the parent's id and the validated request headers (checked
    as a pushed request: `is_push_promise`), reported only where the parent accepts RECV_PUSH_PROMISE -/
theorem C22_recv_event (cfg : Config) (promised : Int) (hs : List Header) (st : Stream) (fe : FE) (st' : Stream)
    (h : Stream.receivePushPromiseInBand cfg promised hs st = (.ok fe, st')) :
    fe.1 = [] ∧ ∃ hs', fe.2 = [Event.PushedStreamReceived (some promised) st.sid hs'] ∧
      ∃ fl, processReceivedHeaders cfg hs fl = .ok hs' ∧ fl.isPush = true := by
  unfold Stream.receivePushPromiseInBand at h
  simp only [bind, M.bind] at h
  cases hp : processInput .RECV_PUSH_PROMISE st with
  | mk r s1 =>
    rw [hp] at h
    cases r with
    | error e => simp at h
    | ok evs =>
      obtain ⟨hsid, sh, hstep⟩ := processInput_ok_inv _ _ _ _ hp
      simp only at h
      cases evs with
      | nil => simp [raise] at h
      | cons e rest =>
        have hev : e = .PushedStreamReceived := by
          have := tbl_push_event st.sm.sh
          unfold pushEvOk at this
          rw [hstep] at this
          simpa using this
        subst hev
        simp only [buildHdrFlags, bind, M.bind, getS, pure, M.pure, liftExcept] at h
        have f1 : (SEv.PushedStreamReceived == SEv.TrailersSent || SEv.PushedStreamReceived == SEv.TrailersReceived) = false := by decide
        have f2 : (SEv.PushedStreamReceived == SEv.ResponseSent || SEv.PushedStreamReceived == SEv.ResponseReceived ||
                SEv.PushedStreamReceived == SEv.InformationalResponseReceived) = false := by decide
        have f3 : (SEv.PushedStreamReceived == SEv.PushedStreamReceived || SEv.PushedStreamReceived == SEv.PushedRequestSent) = true := by decide
        rw [f1, f2, f3] at h
        cases hprh : processReceivedHeaders cfg hs
            { isClient := s1.sm.client, isTrailer := false, isResponse := false, isPush := true } with
        | error e2 =>
          rw [hprh] at h
          simp at h
        | ok hs' =>
          rw [hprh] at h
          simp only [Prod.mk.injEq, Except.ok.injEq] at h
          obtain ⟨h1, h2⟩ := h
          rw [← h1]
          exact ⟨rfl, hs', by rw [hsid], _, hprh, rfl⟩

end H2.C22
