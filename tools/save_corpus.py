#!/venv/bin/python
"""save_corpus.py <pid> <name> <note> < ops.py   — ops.py is a Python expression evaluating to the op list.
Writes harness/corpus/<pid>/<name>.json (a directed history that runs first on every check of <pid>)."""
import json, os, sys
ROOT = os.path.dirname(os.path.dirname(os.path.abspath(__file__)))
sys.path.insert(0, os.path.join(ROOT, 'harness'))
os.environ.setdefault('H2_SRC', '/repo/src')
from corr import enc_json
pid, name, note = sys.argv[1:4]
ops = eval(sys.stdin.read())
d = os.path.join(ROOT, 'harness', 'corpus', pid)
os.makedirs(d, exist_ok=True)
json.dump(enc_json({'ops': ops, 'property': pid, 'kind': 'corpus', 'note': note}), open(os.path.join(d, name + '.json'), 'w'))
print('wrote', os.path.join(d, name + '.json'), len(ops), 'ops')
