/-
  C27 — peer-controlled retained state stays bounded.
-/
import H2.Proofs.RecvEmits
import H2.Proofs.ClosedCap
import H2.Proofs.HbCap
import H2.Proofs.History
import H2.Proofs.ClosedTable

namespace H2.C27
open H2 H2.Gen H2.Conn

/-! ### memory of closed streams is capped -/

theorem drop_cap {α} (l : List α) (N : Nat) : (l.drop (l.length - N)).length ≤ N := by
  simp only [List.length_drop]; omega

theorem foldl_cap {α β} (f : List α → β → List α) (N : Nat) (hf : ∀ acc e, (f acc e).length ≤ N) (dead : List β)
    (l : List α) (h : l.length ≤ N) : (dead.foldl f l).length ≤ N := by
  induction dead generalizing l with
  | nil => exact h
  | cons e t ih => exact ih _ (hf _ _)

/-- `SizeLimitDict.__setitem__`: never more than MAX_CLOSED_STREAMS entries, whatever was there before -/
theorem C27_closedInsert_cap (l : List (Int × Option StreamClosedBy)) (k : Int) (v : Option StreamClosedBy) :
    (closedInsert l k v).length ≤ MAX_CLOSED_STREAMS.toNat := by
  unfold closedInsert
  exact drop_cap _ _

/-- `_open_streams` (the only place that moves closed streams into the memory) keeps the cap -/
theorem C27_openStreams_cap (r : Int) (c : Conn) (h : c.closedStreams.length ≤ MAX_CLOSED_STREAMS.toNat) :
    ((openStreams r c).2).closedStreams.length ≤ MAX_CLOSED_STREAMS.toNat ∧
    ((openStreams r c).2).streams.length ≤ c.streams.length := by
  unfold openStreams
  refine ⟨?_, List.length_filter_le _ _⟩
  exact foldl_cap (fun acc (e : Int × Stream) => closedInsert acc e.1 e.2.sm.closedBy) MAX_CLOSED_STREAMS.toNat
    (fun acc e => C27_closedInsert_cap acc e.1 e.2.sm.closedBy) _ _ h

/-- …and it forgets every closed stream of the table at once: none is left behind -/
theorem C27_openStreams_drops_closed (r : Int) (c : Conn) :
    ∀ e ∈ ((openStreams r c).2).streams, e.2.isClosed = false ∨ (e.2.isOpen && e.1 % 2 == r) = true := by
  simp only [openStreams]
  intro e he
  have := (List.mem_filter.mp he).2
  simp only [Bool.or_eq_true, Bool.not_eq_true'] at this
  rcases this with h | h
  · exact Or.inr h
  · exact Or.inl h

theorem C27_refuse_cap (p : Int) (c : Conn) (h : c.closedStreams.length ≤ MAX_CLOSED_STREAMS.toNat) :
    ((refusePushedStream p c).2).closedStreams.length ≤ MAX_CLOSED_STREAMS.toNat ∧
    ((refusePushedStream p c).2).streams = c.streams := by
  have e : (refusePushedStream p c).2 = (if (!streamIdIsOutbound c p && decide (p > c.highestIn)) = true then
      ({ c with highestIn := p, closedStreams := closedInsert c.closedStreams p (some .SEND_RST_STREAM) } : Conn) else c) := rfl
  rw [e]
  split
  · refine ⟨?_, rfl⟩
    dsimp only
    exact C27_closedInsert_cap c.closedStreams p (some .SEND_RST_STREAM)
  · exact ⟨h, rfl⟩

/-! ### frames that do not open streams allocate no stream state -/

/-- keys of the stream table and the memory of closed streams -/
def tbl (c : Conn) : List Int × List (Int × Option StreamClosedBy) := (c.streams.map (·.1), c.closedStreams)

theorem tbl_setStream (c : Conn) (sid : Int) (st : Stream) : tbl (setStream c sid st) = tbl c := by
  unfold tbl setStream
  simp only [List.map_map]
  congr 1
  apply List.map_congr_left
  intro e _
  simp only [Function.comp]
  split
  · rename_i h; simp at h; exact h.symm
  · rfl

section
variable {α : Type} {Q : α → Conn → Prop} {E : Exc → Conn → Prop}

theorem tb_connInput {Q : Unit → Conn → Prop} (i : ConnectionInputs) (c : Conn) (s0) (h : tbl c = s0)
    (hq : ∀ c', tbl c' = s0 → Q () c') (he : ∀ e c', tbl c' = s0 → E e c') : wp (connInput i) Q E c := by
  unfold wp connInput
  cases connTable c.cstate i with
  | none => exact he _ _ h
  | some t => exact hq _ h

theorem tb_withStream (sid : Int) (m : M Stream α) (c : Conn) (s0) (h : tbl c = s0)
    (hq : ∀ a c', tbl c' = s0 → Q a c') (he : ∀ e c', tbl c' = s0 → E e c') : wp (withStream sid m) Q E c := by
  rw [wp_withStream]
  cases c.streams.lookup sid with
  | none => exact he _ _ h
  | some st =>
    exact wp_havoc (fun a s' => hq a _ ((tbl_setStream c sid s').trans h)) (fun e s' => he e _ ((tbl_setStream c sid s').trans h))

theorem tb_getStreamById {Q : Unit → Conn → Prop} (sid : Int) (c : Conn) (s0) (h : tbl c = s0)
    (hq : ∀ c', tbl c' = s0 → Q () c') (he : ∀ e c', tbl c' = s0 → E e c') : wp (getStreamById sid) Q E c := by
  rw [wp_getStreamById_eq]
  repeat' split
  all_goals first | exact hq c h | exact he _ c h
end

macro "tb_auto" : tactic => `(tactic|
  repeat' (first
    | assumption
    | (apply tb_connInput _ _ _ (by assumption))
    | (apply tb_withStream _ _ _ _ (by assumption))
    | (apply tb_getStreamById _ _ _ (by assumption))
    | (intro _)
    | wps
    | split))

abbrev Keeps (m : CM α) (c : Conn) : Prop := wp m (fun _ c' => tbl c' = tbl c) (fun _ c' => tbl c' = tbl c) c

/-- **PRIORITY** on any stream id (idle, open, closed, never seen): the stream table and the memory of closed streams
    are exactly what they were -/
theorem C27_priority (sid : Int) (p : Prio) (c : Conn) : Keeps (receivePriorityFrame sid p) c := by
  have h : tbl c = tbl c := rfl
  unfold Keeps receivePriorityFrame; tb_auto

/-- **WINDOW_UPDATE** on any stream id -/
theorem C27_windowUpdate (sid incr : Int) (c : Conn) : Keeps (receiveWindowUpdateFrame sid incr) c := by
  have h : tbl c = tbl c := rfl
  unfold Keeps receiveWindowUpdateFrame; tb_auto

/-- **RST_STREAM** on any stream id -/
theorem C27_rstStream (sid code : Int) (c : Conn) : Keeps (receiveRstStreamFrame sid code) c := by
  have h : tbl c = tbl c := rfl
  unfold Keeps receiveRstStreamFrame; tb_auto

/-- frames of unknown type, PING, and ALTSVC likewise -/
theorem C27_other (rf : RFrame) (c : Conn)
    (h : (∃ t fl sid body, rf.frame = .ext t fl sid body) ∨ (∃ a p, rf.frame = .ping a p) ∨
         (∃ sid o f, rf.frame = .altsvc sid o f)) : Keeps (dispatch rf) c := by
  have h0 : tbl c = tbl c := rfl
  rcases h with ⟨t, fl, sid, body, hf⟩ | ⟨a, p, hf⟩ | ⟨sid, o, f, hf⟩
  · unfold Keeps dispatch; rw [hf]; simp only; wps
  · unfold Keeps dispatch; rw [hf]; simp only; unfold receivePingFrame; tb_auto
  · unfold Keeps dispatch; rw [hf]; simp only; unfold receiveAltSvcFrame; tb_auto

/-! ### the CONTINUATION backlog is capped -/

/-- a header block spread over more than CONTINUATION_BACKLOG frames is a connection error; as long as no error is
    raised the backlog holds at most CONTINUATION_BACKLOG frames -/
theorem C27_continuation_cap (hb : List Frame) (f : RFrame) (h : (hb.length : Int) ≤ CONTINUATION_BACKLOG) :
    (∀ e, (FrameBuffer.stepHeaderBuffer hb f).1 = .error e → e = mkExc .ProtocolError) ∧
    ((∀ e, (FrameBuffer.stepHeaderBuffer hb f).1 ≠ .error e) →
      ((FrameBuffer.stepHeaderBuffer hb f).2.length : Int) ≤ CONTINUATION_BACKLOG) := by
  unfold FrameBuffer.stepHeaderBuffer
  constructor
  · intro e he
    repeat' split at he
    all_goals (try simp only [apply_ite Prod.fst] at he)
    all_goals (repeat' split at he)
    all_goals first
      | (simp at he; done)
      | (injection he with he; exact he.symm)
  · intro hne
    repeat' split
    all_goals (try simp only [apply_ite Prod.snd])
    all_goals (repeat' split)
    all_goals first
      | exact h
      | (simp [CONTINUATION_BACKLOG]; done)
      | (exfalso; apply hne (mkExc .ProtocolError); simp_all; done)
      | skip
    all_goals (simp_all [CONTINUATION_BACKLOG] <;> omega)

/-! ### oversized header lists -/

/-- the decoder's limit is the acknowledged local MAX_HEADER_LIST_SIZE… -/
theorem C27_limit_follows_ack (changes : List (Int × Option Int × Int)) (c : Conn) (old : Option Int) (new : Int)
    (h : findChange changes SettingCodes.MAX_HEADER_LIST_SIZE = some (old, new)) :
    (localOtherChanges changes c).decMaxHeaderList = new := by
  unfold localOtherChanges
  simp only [h]
  repeat' split
  all_goals rfl

/-- …and a header list the decoder reports as larger than that is refused with ENHANCE_YOUR_CALM -/
theorem C27_oversized (c : Conn) (rest : List DecRes) (block : Bytes) (h : c.hp.decOracle = .oversized :: rest) :
    ∃ c', decodeHeaders block c =
      (.error (.h2 .DenialOfServiceError (some ErrorCodes.ENHANCE_YOUR_CALM) none []), c') := by
  unfold decodeHeaders
  simp only [bind, M.bind, zoom, Hp.decode, h]
  exact ⟨_, rfl⟩

/-! ### along every history -/

/-- the two capped stores: the memory of closed streams and the backlog of a header block under assembly -/
def Bounded (c : Conn) : Prop := CC c ∧ HC c

theorem b_of_keeps {α : Type} {m : CM α} {c : Conn} (h1 : PC m c) (h2 : PF m c) (h : Bounded c) :
    wp m (fun _ c' => Bounded c') (fun _ c' => Bounded c') c :=
  wp_and (h1 h.1) (hc_of_pf h2 h.2)

/-- every public call keeps both stores within their caps, whether it returns or raises -/
theorem C27_calls_keep_bounds : CallsKeep Bounded where
  initiate := fun c h => b_of_keeps (pc_apiInitiate c) (pf_apiInitiate c) h
  upgrade := fun hdr c h => b_of_keeps (pc_apiUpgrade hdr c) (pf_apiUpgrade hdr c) h
  sendHeaders := fun sid hs es pw pd pe c h => b_of_keeps (pc_apiSendHeaders sid hs es pw pd pe c) (pf_apiSendHeaders sid hs es pw pd pe c) h
  pushStream := fun sid p hs c h => b_of_keeps (pc_apiPushStream sid p hs c) (pf_apiPushStream sid p hs c) h
  sendData := fun sid d es pad c h => b_of_keeps (pc_apiSendData sid d es pad c) (pf_apiSendData sid d es pad c) h
  endStream := fun sid c h => b_of_keeps (pc_apiEndStream sid c) (pf_apiEndStream sid c) h
  incrementWindow := fun i sid c h => b_of_keeps (pc_apiIncrementWindow i sid c) (pf_apiIncrementWindow i sid c) h
  ping := fun d c h => b_of_keeps (pc_apiPing d c) (pf_apiPing d c) h
  resetStream := fun sid code c h => b_of_keeps (pc_apiResetStream sid code c) (pf_apiResetStream sid code c) h
  closeConnection := fun code extra last c h => b_of_keeps (pc_apiCloseConnection code extra last c) (pf_apiCloseConnection code extra last c) h
  updateSettings := fun items c h => b_of_keeps (pc_apiUpdateSettings items c) (pf_apiUpdateSettings items c) h
  altsvc := fun f o sid c h => b_of_keeps (pc_apiAltsvc f o sid c) (pf_apiAltsvc f o sid c) h
  prioritize := fun sid w d e c h => b_of_keeps (pc_apiPrioritize sid w d e c) (pf_apiPrioritize sid w d e c) h
  ackData := fun size sid c h => b_of_keeps (pc_apiAckData size sid c) (pf_apiAckData size sid c) h
  dataToSend := fun n c h => b_of_keeps (pc_apiDataToSend n c) (pf_apiDataToSend n c) h
  clearOut := fun c h => b_of_keeps (pc_apiClearOut c) (pf_apiClearOut c) h
  localWindow := fun sid c h => b_of_keeps (pc_apiLocalWindow sid c) (pf_apiLocalWindow sid c) h
  remoteWindow := fun sid c h => b_of_keeps (pc_apiRemoteWindow sid c) (pf_apiRemoteWindow sid c) h
  nextStreamId := fun c h => b_of_keeps (pc_apiNextStreamId c) (pf_apiNextStreamId c) h
  openOut := fun c h => b_of_keeps (pc_apiOpenOut c) (pf_apiOpenOut c) h
  openIn := fun c h => b_of_keeps (pc_apiOpenIn c) (pf_apiOpenIn c) h

/-- `receive_data` keeps them for every byte string, also when it raises -/
theorem C27_recv_keeps_bounds (d : Bytes) (c : Conn) (h : Bounded c) : Bounded (receiveData d c).2 :=
  ⟨receiveData_cc d c h.1, receiveData_hc d c h.2⟩

/-- **bounded in every reachable state**: whatever calls and whatever bytes came before — connection errors included —
    the memory of closed streams holds at most MAX_CLOSED_STREAMS entries and the backlog of a header block under
    assembly at most CONTINUATION_BACKLOG frames -/
theorem C27_bounded_every_history (cfg : Config) (c : Conn) (h : C29.Reachable cfg c) :
    c.closedStreams.length ≤ MAX_CLOSED_STREAMS.toNat ∧ (c.fb.headersBuffer.length : Int) ≤ CONTINUATION_BACKLOG := by
  refine every_history C27_calls_keep_bounds C27_recv_keeps_bounds (fun _ _ h => h) cfg ?_ c h
  cases hc : cfg.client <;> simp [Bounded, CC, HC, HbCap, Conn.init, hc, FrameBuffer.init, CONTINUATION_BACKLOG]

/-- **a closed connection takes no new streams**: whatever bytes arrive on a CLOSED connection — HEADERS on ever new
    stream ids included — every stream id in the table afterwards was in the table before (entries may leave: counting
    the open streams cleans closed ones out), and the connection stays closed.  (Every handler asks the connection
    state machine before it touches the table; mutant C27-e, which created the stream first, grew the table by one
    idle stream per refused frame.) -/
theorem C27_closed_connection_takes_no_stream (c : Conn) (d : Bytes) (hc : c.cstate = .CLOSED) :
    (step c (.recv d)).1.cstate = .CLOSED ∧
    ∀ e ∈ (step c (.recv d)).1.streams, ∃ e0 ∈ c.streams, e0.1 = e.1 := by
  have := receiveData_closed_table d c hc
  simp only [step]
  cases hr : receiveData d c with
  | mk r c' =>
    rw [hr] at this
    cases r <;> exact this

/-- so the table of a closed connection never grows, however many deliveries follow -/
theorem C27_closed_table_never_grows (c : Conn) (ds : List Bytes) (hc : c.cstate = .CLOSED) :
    ∀ e ∈ (ds.foldl (fun c d => (step c (.recv d)).1) c).streams, ∃ e0 ∈ c.streams, e0.1 = e.1 := by
  induction ds generalizing c with
  | nil => intro e he; exact ⟨e, he, rfl⟩
  | cons d t ih =>
    intro e he
    have h1 := C27_closed_connection_takes_no_stream c d hc
    obtain ⟨e1, he1, h11⟩ := ih (step c (.recv d)).1 h1.1 e he
    obtain ⟨e0, he0, h00⟩ := h1.2 e1 he1
    exact ⟨e0, he0, h00.trans h11⟩

end H2.C27
