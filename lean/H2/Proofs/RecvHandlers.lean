/-
  Receive path, connection level: every frame handler keeps the connection invariant WF, emits only small,
  serialisable frames and raises only protocol errors.
-/
import H2.Proofs.RecvWF
namespace H2
open H2.Gen H2.Conn

def HQ (fe : FE) (c' : Conn) : Prop := WF c' ∧ FramesOk fe.1

theorem goodExc_noSuch (sid : Int) :
    GoodExc (.h2 .NoSuchStreamError (ExcClass.NoSuchStreamError.classCode.map Int.ofNat) (some sid) []) :=
  ⟨by decide, _, rfl, by decide, by decide⟩

/-- `_get_stream_by_id` on a live connection: the stream is there, or NoSuchStreamError / StreamClosedError with nothing changed -/
theorem wp_getStreamById_live {Q : Unit → Conn → Prop} {E : Exc → Conn → Prop} (sid : Int) (c : Conn)
    (hq : hasStream c sid = true → Q () c) (he : ∀ e, GoodExc e → E e c) : wp (getStreamById sid) Q E c := by
  rw [wp_getStreamById_eq]
  repeat' split
  all_goals first | exact hq ‹_› | exact he _ (goodExc_noSuch sid) | exact he _ (goodExc_streamClosed sid [])

theorem hspec_ping (ack : Bool) (payload : Bytes) (c : Conn) (hwf : WF c) (hp : payload.length = 8) :
    wp (receivePingFrame ack payload) HQ CE c := by
  unfold receivePingFrame
  wps
  apply wp_connInput_live _ _ hwf (by unfold notGoaway; decide)
  · intro t hl
    split
    · wps; exact ⟨hl.wf, framesOk_nil⟩
    · wps; exact ⟨hl.wf, framesOk_one hp⟩
  · intro h; exact CE_plain plain_pErr h.1

theorem hspec_priority (sid : Int) (p : Prio) (c : Conn) (hwf : WF c) :
    wp (receivePriorityFrame sid p) HQ CE c := by
  unfold receivePriorityFrame
  wps
  apply wp_connInput_live _ _ hwf (by unfold notGoaway; decide)
  · intro t hl
    split
    · exact CE_plain plain_pErr hl.1
    · wps; exact ⟨hl.wf, framesOk_nil⟩
  · intro h; exact CE_plain plain_pErr h.1

theorem hspec_goaway (last code : Int) (extra : Bytes) (c : Conn) (hwf : WF c) :
    wp (receiveGoawayFrame last code extra) HQ CE c := by
  unfold receiveGoawayFrame clearOutboundDataBuffer
  wps
  unfold wp connInput
  cases h : connTable c.cstate .RECV_GOAWAY with
  | none => exact CE_plain plain_pErr ⟨hwf.1.ls, hwf.1.rs, hwf.1.mof, hwf.1.dec, hwf.1.ls32⟩
  | some t =>
    have ht : t = .CLOSED := by
      revert h; cases c.cstate <;> simp [connTable] <;> (intro h; exact h.symm)
    subst ht
    exact ⟨⟨⟨hwf.1.ls, hwf.1.rs, hwf.1.mof, hwf.1.dec, hwf.1.ls32⟩, fun hc => absurd rfl hc⟩, framesOk_nil⟩


/-! ### what the stream methods return -/

def NoFrames (fe : FE) : Prop := fe.1 = []

macro "res_auto" : tactic => `(tactic|
  repeat' (first
    | rfl
    | trivial
    | (intro _)
    | wps
    | split
    | (apply wp_havoc)))

theorem res_receiveHeaders (cfg : Config) (hs : List Header) (es : Bool) (st : Stream) :
    wp (Stream.receiveHeaders cfg hs es) (fun a _ => NoFrames a) (fun _ _ => True) st := by
  unfold Stream.receiveHeaders NoFrames Stream.initializeContentLength Stream.trackContentLength buildHdrFlags
  res_auto

theorem res_receiveData (d : Bytes) (es : Bool) (fcl : Int) (st : Stream) :
    wp (Stream.receiveData d es fcl) (fun a _ => NoFrames a) (fun _ _ => True) st := by
  unfold Stream.receiveData NoFrames Stream.trackContentLength
  res_auto


theorem res_receivePushPromiseInBand (cfg : Config) (p : Int) (hs : List Header) (st : Stream) :
    wp (Stream.receivePushPromiseInBand cfg p hs) (fun a _ => NoFrames a) (fun _ _ => True) st := by
  unfold Stream.receivePushPromiseInBand NoFrames buildHdrFlags
  res_auto

theorem res_remotelyPushed (hs : List Header) (st : Stream) :
    wp (Stream.remotelyPushed hs) (fun a _ => NoFrames a) (fun _ _ => True) st := by
  unfold Stream.remotelyPushed NoFrames
  res_auto

theorem res_streamReset (code : Int) (st : Stream) :
    wp (Stream.streamReset code) (fun a _ => NoFrames a) (fun _ _ => True) st := by
  unfold Stream.streamReset NoFrames
  res_auto

theorem res_receiveAltSvc (o f : Bytes) (st : Stream) :
    wp (Stream.receiveAltSvc o f) (fun a _ => NoFrames a) (fun _ _ => True) st := by
  unfold Stream.receiveAltSvc NoFrames
  res_auto

theorem res_receiveWindowUpdate (incr : Int) (st : Stream) :
    wp (Stream.receiveWindowUpdate incr) (fun a _ => FramesOk a.1) (fun _ _ => True) st := by
  unfold Stream.receiveWindowUpdate Stream.resetStream
  repeat' (first
    | exact framesOk_nil
    | exact framesOk_one ⟨by decide, by decide⟩
    | trivial
    | (intro _)
    | wps
    | split
    | (apply wp_havoc))

theorem framesOk_of_noFrames {fe : FE} (h : NoFrames fe) : FramesOk fe.1 := by rw [h]; exact framesOk_nil

theorem live_out {c : Conn} (h : Live c) (w : Int) : Live { c with outWin := w } :=
  ⟨⟨h.1.ls, h.1.rs, h.1.mof, h.1.dec, h.1.ls32⟩, h.2.1, h.2.2⟩

theorem hspec_windowUpdate (sid incr : Int) (c : Conn) (hwf : WF c) :
    wp (receiveWindowUpdateFrame sid incr) HQ CE c := by
  unfold receiveWindowUpdateFrame
  wps
  apply wp_connInput_live _ _ hwf (by unfold notGoaway; decide)
  · intro t hl
    split
    · -- stream window
      wps
      apply wp_getStreamById_live
      · intro hex
        apply wp_withStream_live _ _ _ _ hl hex (fun st hst => sgood_receiveWindowUpdate incr st hst)
          (res_receiveWindowUpdate incr)
        · intro a st' hr hl'; exact ⟨hl'.wf, hr⟩
        · intro e st' hce
          split
          · rename_i hc
            try wps
            have : isCaught e = true := by
              unfold isCaught
              cases e with
              | h2 cls code sid evs =>
                simp only [Exc.isInstance] at hc ⊢
                revert hc; cases cls <;> decide
              | py k => simp [Exc.isInstance] at hc
            exact ⟨hce.2.2 this, framesOk_nil⟩
          · exact hce
      · intro e he
        split
        · (try wps); exact ⟨hl.wf, framesOk_nil⟩
        · exact CE_wf he hl.wf
    · -- connection window
      wps
      cases hg : guard_increment_window c.outWin incr with
      | ok w => wps; exact ⟨(live_out hl w).wf, framesOk_nil⟩
      | error e =>
        rw [giw_err _ _ _ hg]
        exact CE_plain ⟨goodExc_ofPyErr_h2 _ (by decide), by decide⟩ hl.1
  · intro h; exact CE_plain plain_pErr h.1


theorem caught_of_streamClosed {e : Exc} (h : e.isInstance .StreamClosedError = true) : isCaught e = true := by
  unfold isCaught
  cases e with
  | h2 cls code sid evs => simp only [Exc.isInstance] at h ⊢; revert h; cases cls <;> decide
  | py k => simp [Exc.isInstance] at h

theorem caught_of_noSuch {e : Exc} (h : e.isInstance .NoSuchStreamError = true) : isCaught e = true := by
  unfold isCaught; rw [h]; rfl

theorem hspec_rstStream (sid code : Int) (c : Conn) (hwf : WF c) :
    wp (receiveRstStreamFrame sid code) HQ CE c := by
  unfold receiveRstStreamFrame
  wps
  apply wp_connInput_live _ _ hwf (by unfold notGoaway; decide)
  · intro t hl
    wps
    apply wp_getStreamById_live
    · intro hex
      wps
      simp only [if_true]
      apply wp_withStream_live _ _ _ _ hl hex (fun st hst => sgood_streamReset code st hst) (res_streamReset code)
      · intro a st' hr hl'; exact ⟨hl'.wf, framesOk_of_noFrames hr⟩
      · intro e st' hce; exact hce
    · intro e he
      split
      · rw [if_neg (by decide)]; exact ⟨hl.wf, framesOk_nil⟩
      · exact CE_wf he hl.wf
  · intro h; exact CE_plain plain_pErr h.1

theorem hspec_altsvc (sid : Int) (origin field : Bytes) (c : Conn) (hwf : WF c) :
    wp (receiveAltSvcFrame sid origin field) HQ CE c := by
  unfold receiveAltSvcFrame
  wps
  apply wp_connInput_live _ _ hwf (by unfold notGoaway; decide)
  · intro t hl
    wps
    split
    · apply wp_getStreamById_live
      · intro hex
        wps
        simp only [if_true]
        apply wp_withStream_live _ _ _ _ hl hex (fun st hst => sgood_receiveAltSvc origin field st hst)
          (res_receiveAltSvc origin field)
        · intro a st' hr hl'; exact ⟨hl'.wf, framesOk_of_noFrames hr⟩
        · intro e st' hce; exact hce
      · intro e he
        split
        · rw [if_neg (by decide)]; exact ⟨hl.wf, framesOk_nil⟩
        · exact CE_wf he hl.wf
    · repeat' split
      all_goals exact ⟨hl.wf, framesOk_nil⟩
  · intro h; exact CE_plain plain_pErr h.1


theorem tbl_cont_state : ∀ s, ((stepShape s .RECV_CONTINUATION).2.state != .IDLE) = true := forall_shape (by decide +kernel)

theorem continuation_raises' (st : Stream) :
    wp (processInput .RECV_CONTINUATION) (fun _ _ => False) (fun e st' => GoodExc e ∧ st'.sm.state ≠ .IDLE) st := by
  apply wp_processInput_good
  · intro evs sh hstep
    have := tbl_cont st.sm.sh
    unfold neverOk at this
    rw [hstep] at this
    simp at this
  · intro e sh hg hsh
    refine ⟨hg, ?_⟩
    have := tbl_cont_state st.sm.sh
    rw [hsh] at this
    show sh.state ≠ _
    simpa using this

theorem notIdle_setStream' {ss : List (Int × Stream)} {sid : Int} {st : Stream} (h : StreamsNotIdle ss)
    (hs : st.sm.state ≠ .IDLE) : StreamsNotIdle (ss.map fun e => if e.1 == sid then (sid, st) else e) := by
  intro e he
  simp only [List.mem_map] at he
  obtain ⟨e0, he0, heq⟩ := he
  split at heq
  · subst heq; exact hs
  · subst heq; exact h _ he0

theorem hspec_nakedContinuation (sid : Int) (c : Conn) (hwf : WF c) :
    wp (receiveNakedContinuation sid) HQ CE c := by
  unfold receiveNakedContinuation
  wps
  apply wp_getStreamById_live
  · intro hex
    wps
    rw [wp_withStream]
    rw [hasStream_lookup] at hex
    cases hlk : c.streams.lookup sid with
    | none => rw [hlk] at hex; simp at hex
    | some st =>
      simp only
      refine wp_mono (continuation_raises' st) ?_ ?_
      · intro a s' h; exact h.elim
      · intro e st' h
        exact ⟨h.1, wfb_setStream hwf.1, fun _ => ⟨wfb_setStream hwf.1, fun hc => notIdle_setStream (hwf.2 hc) h.2⟩⟩
  · intro e he; exact CE_wf he hwf


theorem live_inWM {c : Conn} (h : Live c) (w : WindowManager) : Live { c with inWM := w } :=
  ⟨⟨h.1.ls, h.1.rs, h.1.mof, h.1.dec, h.1.ls32⟩, h.2.1, h.2.2⟩
theorem wf_inWM {c : Conn} (h : WF c) (w : WindowManager) : WF { c with inWM := w } :=
  ⟨⟨h.1.ls, h.1.rs, h.1.mof, h.1.dec, h.1.ls32⟩, h.2⟩

/-- a WindowManager call on the connection window whose only failure is FlowControlError -/
theorem wp_onConnWM_live {Q : Option Int → Conn → Prop} {E : Exc → Conn → Prop} (f : WindowManager → WRes) (c : Conn)
    (hf : ∀ e w', f c.inWM = (.error e, w') → e = .h2 .FlowControlError)
    (hq : ∀ v w, Q v { c with inWM := w }) (he : ∀ e w, Plain e → E e { c with inWM := w }) :
    wp (onConnWM f) Q E c := by
  rw [wp_onConnWM]
  cases h : f c.inWM with
  | mk r w =>
    cases r with
    | ok v => exact hq v w
    | error e => rw [hf e w h]; exact he _ w ⟨goodExc_ofPyErr_h2 _ (by decide), by decide⟩

theorem goodExc_code {cls : ExcClass} {code : Option Int} {sid : Option Int} {evs : List Event}
    (h : GoodExc (.h2 cls code sid evs)) : 0 ≤ code.getD 0 ∧ code.getD 0 < 4294967296 := by
  obtain ⟨_, k, hk, h0, h1⟩ := h
  subst hk; exact ⟨h0, h1⟩

theorem framesOk_incr (v : Option Int) :
    FramesOk (match v with
      | some n => if n != 0 then [Frame.windowUpdate 0 n] else []
      | none => []) := by
  cases v with
  | none => exact framesOk_nil
  | some n =>
    simp only
    split
    · exact framesOk_one (f := Frame.windowUpdate 0 n) trivial
    · exact framesOk_nil

theorem hspec_data (sid : Int) (payload : Bytes) (es : Bool) (fcl : Int) (c : Conn) (hwf : WF c) :
    wp (receiveDataFrame sid payload es fcl) HQ CE c := by
  unfold receiveDataFrame
  wps
  apply wp_connInput_live _ _ hwf (by unfold notGoaway; decide)
  · intro t hl
    wps
    apply wp_onConnWM_live
    · intro e w' h; exact wm_consumed_err _ _ _ _ h
    · intro v w
      have hl2 := live_inWM hl w
      wps
      apply wp_getStreamById_live
      · intro hex
        try wps
        apply wp_withStream_live _ _ _ _ hl2 hex (fun st hst => sgood_receiveData payload es fcl st hst)
          (res_receiveData payload es fcl)
        · intro a st' hr hl'; exact ⟨hl'.wf, framesOk_of_noFrames hr⟩
        · intro e st' hce
          split
          · rename_i hc
            have hwf' := hce.2.2 (caught_of_streamClosed hc)
            wps
            obtain ⟨v2, w2, hpb⟩ := wm_process_ok (setStream { c with cstate := t, inWM := w } sid st').inWM fcl
            rw [wp_onConnWM, hpb]
            simp only
            cases e with
            | py k => exact hce.1.elim
            | h2 cls code esid evs =>
              wps
              refine ⟨wf_inWM hwf' w2, framesOk_append ?_ (framesOk_one (goodExc_code hce.1))⟩
              exact framesOk_incr v2
          · exact hce
      · intro e he
        split
        · rename_i hc
          try wps
          obtain ⟨v2, w2, hpb⟩ := wm_process_ok ({ c with cstate := t, inWM := w } : Conn).inWM fcl
          rw [wp_onConnWM, hpb]
          simp only
          cases e with
          | py k => exact he.elim
          | h2 cls code esid evs =>
            wps
            refine ⟨wf_inWM hl2.wf w2, framesOk_append ?_ (framesOk_one (goodExc_code he))⟩
            exact framesOk_incr v2
        · exact CE_wf he hl2.wf
    · intro e w hp; exact CE_plain hp (live_inWM hl w).1
  · intro h; exact CE_plain plain_pErr h.1

end H2
