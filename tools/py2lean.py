#!/usr/bin/env python3
"""AST translator for the straight-line integer parts of /repo/src/h2:
   windows.py (class WindowManager), settings._validate_setting,
   utilities.guard_increment_window.

Python subset: int / bool / None values, self.x reads and writes, + - *, //
by a positive literal, comparisons (chains, `in (a, b)`, `not in`), not/and/or
with Python truthiness of ints, min/max, if/elif/else, raise C(...), assert,
return, `return self.m()` tail calls, module-level integer constants and
enum attributes (SettingCodes.X, ErrorCodes.X).

Statement order is preserved, in particular "mutate, then raise".  A construct
outside the subset raises Untranslatable; the caller then falls back to the
committed copy and records the failure.
"""
import ast
import os
import sys

SRC = os.environ.get('H2_SRC', '/repo/src')


class Untranslatable(Exception):
    pass


# fields of `structure WindowManager` in lean/H2/Gen/Windows.lean (the reference definitions)
REFERENCE_FIELDS = ['max_window_size', 'current_window_size', 'bytes_processed']


def const_env(mod):
    """module-level NAME = <int expr> constants"""
    env = {}
    for n in mod.body:
        if isinstance(n, ast.Assign) and len(n.targets) == 1 and isinstance(n.targets[0], ast.Name):
            try:
                v = eval(compile(ast.Expression(n.value), '<c>', 'eval'), {}, dict(env))
            except Exception:
                continue
            if isinstance(v, int) and not isinstance(v, bool):
                env[n.targets[0].id] = v
    return env


class Tr:
    def __init__(self, consts, enums, fields=(), cls=None, int_locals=()):
        self.consts = dict(consts)
        self.enums = enums          # {'SettingCodes': {'ENABLE_PUSH': 2, ...}}
        self.fields = list(fields)
        self.cls = cls
        self.locals = set(int_locals)

    def fld(self, n):
        return n.lstrip('_')

    # ---- expressions (typed: 'int' | 'bool' | 'none') ----
    def E(self, e):
        if isinstance(e, ast.Constant):
            if e.value is None:
                return 'none', 'none'
            if isinstance(e.value, bool):
                return ('true' if e.value else 'false'), 'bool'
            if isinstance(e.value, int):
                return ('(%d : Int)' % e.value), 'int'
            raise Untranslatable(ast.dump(e))
        if isinstance(e, ast.Name):
            if e.id in self.locals:
                return e.id, 'int'
            if e.id in self.consts:
                return '(%d : Int)' % self.consts[e.id], 'int'
            raise Untranslatable('name ' + e.id)
        if isinstance(e, ast.Attribute) and isinstance(e.value, ast.Name):
            if e.value.id == 'self':
                return 's.' + self.fld(e.attr), 'int'
            if e.value.id in self.enums and e.attr in self.enums[e.value.id]:
                return '(%d : Int)' % self.enums[e.value.id][e.attr], 'int'
            raise Untranslatable(ast.dump(e))
        if isinstance(e, ast.BinOp):
            l, lt = self.E(e.left)
            r, rt = self.E(e.right)
            if lt != 'int' or rt != 'int':
                raise Untranslatable('non-int arithmetic')
            if isinstance(e.op, ast.FloorDiv):
                if not (isinstance(e.right, ast.Constant) and isinstance(e.right.value, int) and e.right.value > 0):
                    raise Untranslatable('// by non-positive-literal')
                return '(%s / %s)' % (l, r), 'int'   # Int./ is Euclidean: equals floor for positive divisor
            if isinstance(e.op, ast.Pow):
                try:
                    v = eval(compile(ast.Expression(e), '<c>', 'eval'), {}, dict(self.consts))
                    return '(%d : Int)' % v, 'int'
                except Exception:
                    raise Untranslatable('pow')
            op = {ast.Add: '+', ast.Sub: '-', ast.Mult: '*'}.get(type(e.op))
            if op is None:
                raise Untranslatable(ast.dump(e.op))
            return '(%s %s %s)' % (l, op, r), 'int'
        if isinstance(e, ast.UnaryOp) and isinstance(e.op, ast.USub):
            v, t = self.E(e.operand)
            return '(-%s)' % v, 'int'
        if isinstance(e, ast.Compare):
            parts = []
            left = e.left
            for o, r in zip(e.ops, e.comparators):
                if isinstance(o, (ast.In, ast.NotIn)):
                    if not isinstance(r, (ast.Tuple, ast.List)):
                        raise Untranslatable('in non-tuple')
                    l, _ = self.E(left)
                    alts = ' || '.join('decide (%s = %s)' % (l, self.E(x)[0]) for x in r.elts)
                    parts.append(('!(%s)' if isinstance(o, ast.NotIn) else '(%s)') % alts)
                else:
                    op = {ast.Lt: '<', ast.Gt: '>', ast.LtE: '≤', ast.GtE: '≥', ast.Eq: '=', ast.NotEq: '≠'}[type(o)]
                    l, _ = self.E(left)
                    rr, _ = self.E(r)
                    parts.append('decide (%s %s %s)' % (l, op, rr))
                left = r
            return '(' + ' && '.join(parts) + ')', 'bool'
        if isinstance(e, ast.BoolOp):
            op = ' && ' if isinstance(e.op, ast.And) else ' || '
            return '(' + op.join(self.B(v) for v in e.values) + ')', 'bool'
        if isinstance(e, ast.UnaryOp) and isinstance(e.op, ast.Not):
            return '(!%s)' % self.B(e.operand), 'bool'
        if isinstance(e, ast.Call) and isinstance(e.func, ast.Name) and e.func.id in ('min', 'max') and len(e.args) == 2:
            a, _ = self.E(e.args[0])
            b, _ = self.E(e.args[1])
            return '(%s %s %s)' % (e.func.id, a, b), 'int'
        raise Untranslatable(ast.dump(e))

    def B(self, e):
        """expression in boolean position (Python truthiness)"""
        v, t = self.E(e)
        if t == 'bool':
            return v
        if t == 'int':
            return 'decide (%s ≠ 0)' % v
        if t == 'none':
            return 'false'
        raise Untranslatable('truthiness')

    # ---- statements for methods: state-threading, result : Except PyErr (Option Int) × State ----
    def block(self, stmts, ind):
        if not stmts:
            return ind + '(.ok none, s)'
        st, rest = stmts[0], stmts[1:]
        if isinstance(st, ast.Expr) and isinstance(st.value, ast.Constant):
            return self.block(rest, ind)
        if isinstance(st, (ast.AugAssign, ast.Assign)):
            tgt = st.target if isinstance(st, ast.AugAssign) else st.targets[0]
            if isinstance(st, ast.AugAssign):
                op = {ast.Add: '+', ast.Sub: '-'}[type(st.op)]
                val = '(%s %s %s)' % (self.E(tgt)[0] if not isinstance(tgt, ast.Name) else tgt.id, op, self.E(st.value)[0])
            else:
                val, t = self.E(st.value)
                if t != 'int':
                    raise Untranslatable('non-int assignment')
            if isinstance(tgt, ast.Attribute) and isinstance(tgt.value, ast.Name) and tgt.value.id == 'self':
                return ind + 'let s := { s with %s := %s }\n' % (self.fld(tgt.attr), val) + self.block(rest, ind)
            if isinstance(tgt, ast.Name):
                self.locals.add(tgt.id)
                return ind + 'let %s : Int := %s\n' % (tgt.id, val) + self.block(rest, ind)
            raise Untranslatable(ast.dump(tgt))
        if isinstance(st, ast.Raise):
            return ind + '(.error (.h2 .%s), s)' % self.exc_name(st.exc)
        if isinstance(st, ast.Assert):
            return (ind + 'if %s then\n' % self.B(st.test) + self.block(rest, ind + '  ') + '\n' +
                    ind + 'else\n' + ind + '  (.error .AssertionError, s)')
        if isinstance(st, ast.Return):
            if st.value is None:
                return ind + '(.ok none, s)'
            if (isinstance(st.value, ast.Call) and isinstance(st.value.func, ast.Attribute)
                    and isinstance(st.value.func.value, ast.Name) and st.value.func.value.id == 'self'
                    and not st.value.args):
                return ind + 'H2.GenRaw.%s.%s s' % (self.cls, self.fld(st.value.func.attr))
            v, t = self.E(st.value)
            if t == 'none':
                return ind + '(.ok none, s)'
            if t != 'int':
                raise Untranslatable('non-int return')
            return ind + '(.ok (some %s), s)' % v
        if isinstance(st, ast.If):
            saved = set(self.locals)
            th = self.block(st.body + rest, ind + '  ')
            self.locals = set(saved)
            el = self.block(st.orelse + rest, ind + '  ')
            self.locals = saved
            return ind + 'if %s then\n%s\n%selse\n%s' % (self.B(st.test), th, ind, el)
        raise Untranslatable(ast.dump(st))

    def exc_name(self, exc):
        if isinstance(exc, ast.Call):
            exc = exc.func
        if isinstance(exc, ast.Name):
            return exc.id
        raise Untranslatable(ast.dump(exc))

    # ---- statements for pure functions: result : Except PyErr Int ----
    def fblock(self, stmts, ind, fallthrough):
        if not stmts:
            if fallthrough is None:
                raise Untranslatable('function falls off the end')
            return fallthrough
        st, rest = stmts[0], stmts[1:]
        if isinstance(st, ast.Expr) and isinstance(st.value, ast.Constant):
            return self.fblock(rest, ind, fallthrough)
        if isinstance(st, ast.Assign) and isinstance(st.targets[0], ast.Name):
            val, t = self.E(st.value)
            if t != 'int':
                raise Untranslatable('non-int assignment')
            self.locals.add(st.targets[0].id)
            return ind + 'let %s : Int := %s\n' % (st.targets[0].id, val) + self.fblock(rest, ind, fallthrough)
        if isinstance(st, ast.Raise):
            return ind + '.error (.h2 .%s)' % self.exc_name(st.exc)
        if isinstance(st, ast.Return):
            v, t = self.E(st.value)
            if t != 'int':
                raise Untranslatable('non-int return')
            return ind + '.ok %s' % v
        if isinstance(st, ast.If):
            saved = set(self.locals)
            th = self.fblock(st.body + rest, ind + '  ', fallthrough)
            self.locals = set(saved)
            el = self.fblock(st.orelse + rest, ind + '  ', fallthrough)
            self.locals = saved
            return ind + 'if %s then\n%s\n%selse\n%s' % (self.B(st.test), th, ind, el)
        raise Untranslatable(ast.dump(st))


def load_enums():
    sys.path.insert(0, SRC)
    import h2.settings as ST
    import h2.errors as ER
    return {'SettingCodes': {m.name: int(m) for m in ST.SettingCodes},
            'ErrorCodes': {m.name: int(m) for m in ER.ErrorCodes}}


def translate_windows():
    mod = ast.parse(open(os.path.join(SRC, 'h2/windows.py')).read())
    consts = const_env(mod)
    cls = [n for n in mod.body if isinstance(n, ast.ClassDef) and n.name == 'WindowManager'][0]
    ms = {m.name: m for m in cls.body if isinstance(m, ast.FunctionDef)}
    init = ms.pop('__init__')
    # fields = attributes assigned in __init__, in order
    fields = []
    for st in init.body:
        if isinstance(st, ast.Assign) and isinstance(st.targets[0], ast.Attribute):
            fields.append(st.targets[0].attr)
    # the structure type is the reference one (H2/Gen/Windows.lean): the class must still have exactly its fields
    if [f.lstrip('_') for f in fields] != REFERENCE_FIELDS:
        raise Untranslatable('WindowManager fields changed: %r' % (fields,))
    out = []
    # __init__: asserts then field assignments from args
    args = [a.arg for a in init.args.args[1:]]
    tr = Tr(consts, {}, fields, 'WindowManager', args)
    asserts = [st for st in init.body if isinstance(st, ast.Assert)]
    assigns = [st for st in init.body if isinstance(st, ast.Assign)]
    others = [st for st in init.body if not isinstance(st, (ast.Assert, ast.Assign))
              and not (isinstance(st, ast.Expr) and isinstance(st.value, ast.Constant))]
    if others:
        raise Untranslatable('__init__: ' + ast.dump(others[0]))
    body = '{ ' + ', '.join('%s := %s' % (st.targets[0].attr.lstrip('_'), tr.E(st.value)[0]) for st in assigns) + ' }'
    cond = ' && '.join(tr.B(a.test) for a in asserts) or 'true'
    out.append('def WindowManager.init %s : Except PyErr WindowManager :=' % ' '.join('(%s : Int)' % a for a in args))
    out.append('  if %s then .ok %s else .error .AssertionError' % (cond, body))
    out.append('')
    # order methods so that callees come first
    names = list(ms)
    def calls(m):
        return {n.func.attr for n in ast.walk(m) if isinstance(n, ast.Call) and isinstance(n.func, ast.Attribute)
                and isinstance(n.func.value, ast.Name) and n.func.value.id == 'self'}
    ordered = []
    while names:
        for n in names:
            if all(c in ordered or c not in ms for c in calls(ms[n])):
                ordered.append(n)
                names.remove(n)
                break
        else:
            raise Untranslatable('recursive methods')
    for name in ordered:
        m = ms[name]
        args = [a.arg for a in m.args.args[1:]]
        tr = Tr(consts, {}, fields, 'WindowManager', args)
        sig = ''.join(' (%s : Int)' % a for a in args)
        out.append('def WindowManager.%s (s : WindowManager)%s : WRes :=\n%s\n' % (
            name.lstrip('_'), sig, tr.block(m.body, '  ')))
    return '\n'.join(out)


def translate_function(path, fname, lean_name, enums):
    mod = ast.parse(open(os.path.join(SRC, path)).read())
    consts = const_env(mod)
    fn = [n for n in mod.body if isinstance(n, ast.FunctionDef) and n.name == fname][0]
    args = [a.arg for a in fn.args.args]
    tr = Tr(consts, enums, (), None, args)
    sig = ' '.join('(%s : Int)' % a for a in args)
    return 'def %s %s : Except PyErr Int :=\n%s\n' % (lean_name, sig, tr.fblock(fn.body, '  ', None))


def reference_structure():
    return '\n'.join(['structure WindowManager where'] + ['  %s : Int' % f for f in REFERENCE_FIELDS] +
                     ['deriving DecidableEq, Repr, Inhabited', '', 'abbrev WRes := Except PyErr (Option Int) × WindowManager', ''])


def main():
    """py2lean.py <WindowsRaw.lean> [--inline <Windows.lean>]
    The first file gets the functions in namespace H2.GenRaw (over the reference structure type).  With --inline the
    same functions are also written as a stand-alone replacement of the reference file (namespace H2.Gen, structure
    included): what the check builds the theorems against when a bridge theorem does not check."""
    dest = sys.argv[1]
    inline = sys.argv[3] if len(sys.argv) > 3 and sys.argv[2] == '--inline' else None
    enums = load_enums()
    parts = ['/- GENERATED by tools/py2lean.py from the h2 source tree ($H2_SRC, default /repo/src) — do not edit.',
             '   The functions as the current source defines them, over the reference structure type; H2/Gen/Bridge/*.lean',
             '   prove each of them equal to the reference definition of H2/Gen/Windows.lean. -/',
             'import H2.Gen.Windows', 'namespace H2.GenRaw', 'open H2.Gen', '']
    body = []
    status = {}
    for key, thunk in (
            ('windows', translate_windows),
            ('validate_setting', lambda: translate_function('h2/settings.py', '_validate_setting', 'validate_setting', enums)),
            ('guard_increment_window', lambda: translate_function('h2/utilities.py', 'guard_increment_window', 'guard_increment_window', enums))):
        try:
            body.append(thunk())
            status[key] = 'ok'
        except Untranslatable as e:
            status[key] = 'untranslatable: %s' % e
        except Exception as e:  # syntax errors etc.
            status[key] = 'error: %r' % e
    text = '\n'.join(parts + body + ['end H2.GenRaw']) + '\n'
    import json
    if all(v == 'ok' for v in status.values()):
        old = open(dest).read() if os.path.exists(dest) else None
        if old != text:
            open(dest, 'w').write(text)
        if inline:
            itext = '\n'.join(['/- GENERATED by tools/py2lean.py from the h2 source tree: the regenerated functions in place of the reference definitions. -/',
                               'import H2.Gen.Tables', 'namespace H2.Gen', '', reference_structure()] +
                              [b.replace('H2.GenRaw.', 'H2.Gen.') for b in body] + ['end H2.Gen']) + '\n'
            open(inline, 'w').write(itext)
    print(json.dumps(status))


if __name__ == '__main__':
    main()
