#!/bin/sh
# try_benign.sh <benign-name> <pid> [pid...] : apply benign/<name>/patch.diff (a behaviour-preserving rewrite) to /repo,
# run the checks, undo.  Every check must end "-> ok": an alarm here is a false alarm of the machinery.
# Evidence files are saved before and put back afterwards: evidence/ must describe the unchanged tree.
B=$1; shift
BK=$(mktemp -d /var/tmp/evidence_bk.XXXXXX)
cp -a /verif/evidence/. $BK/ 2>/dev/null
git -C /repo apply /verif/benign/$B/patch.diff || { rm -rf $BK; exit 2; }
rc=0
for p in "$@"; do
  out=$(cd /verif && timeout 2400 ./check $p --tier quick 2>&1 | grep -E "VIOLATION|KNOWN|-> |fallback|Untranslatable")
  echo "$out" | sed "s/^/[$B] /"
  echo "$out" | grep -q -- "-> ok" || rc=1
  echo "$out" | grep -q "VIOLATION" && rc=1
done
git -C /repo checkout -- .
cp -a $BK/. /verif/evidence/ 2>/dev/null; rm -rf $BK
(cd /verif && /venv/bin/python tools/gen_tables.py lean/H2/Gen/Tables.lean work/gen_summary.json && /venv/bin/python tools/py2lean.py lean/H2/Gen/WindowsRaw.lean >/dev/null)
[ $rc = 0 ] && echo "[$B] no alarm" || echo "[$B] ALARM on a behaviour-preserving rewrite"
exit $rc
