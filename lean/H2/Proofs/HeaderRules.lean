import H2.Model.Headers
namespace H2
open H2.Gen

/-! ### `_reject_pseudo_header_fields` as three order/uniqueness rules -/

def isPseudo (h : Header) : Bool := h.name.startsWith [58]
/-- the names of the pseudo-header fields of a block, as bytes (a text name and a bytes name are the same field) -/
def pseudoNames (hs : List Header) : List HStr := (hs.filter isPseudo).map (fun h => HStr.b h.name.bs)
def allowedPseudo (n : HStr) : Bool := inSet n ALLOWED_PSEUDO_HEADER_FIELDS_b ALLOWED_PSEUDO_HEADER_FIELDS_s
/-- the value of the last `:method` pseudo-header (what `_reject_pseudo_header_fields` remembers) -/
def lastMethod (init : Option Bytes) (hs : List Header) : Option Bytes :=
  hs.foldl (fun m h => if isPseudo h && h.name.isLit (strBytes ":method") then some h.value.toBytes else m) init

/-- the three structural rules for pseudo-header fields -/
structure PseudoShape (hs : List Header) : Prop where
  /-- only known pseudo-header fields -/
  known : ∀ h ∈ hs, isPseudo h = true → allowedPseudo h.name = true
  /-- all pseudo-header fields come before all regular fields -/
  first : hs.Pairwise (fun a b => isPseudo b = true → isPseudo a = true)
  /-- no pseudo-header field appears twice -/
  unique : (pseudoNames hs).Nodup

theorem pseudoNames_cons_pseudo (h : Header) (t : List Header) (hp : isPseudo h = true) :
    pseudoNames (h :: t) = HStr.b h.name.bs :: pseudoNames t := by
  simp [pseudoNames, List.filter_cons, hp]
theorem pseudoNames_cons_regular (h : Header) (t : List Header) (hp : isPseudo h = false) :
    pseudoNames (h :: t) = pseudoNames t := by
  simp [pseudoNames, List.filter_cons, hp]

theorem pseudoNames_nil_of_none (t : List Header) (h : ∀ x ∈ t, isPseudo x = false) : pseudoNames t = [] := by
  unfold pseudoNames
  rw [List.filter_eq_nil_iff.mpr]; rfl
  intro a ha; simp [h a ha]

theorem foldlM_pseudoStep (hs : List Header) (st st' : PseudoSt) :
    hs.foldlM pseudoStep st = some st' ↔
      ((∀ h ∈ hs, isPseudo h = true → allowedPseudo h.name = true) ∧
       (st.seenRegular = true → ∀ h ∈ hs, isPseudo h = false) ∧
       hs.Pairwise (fun a b => isPseudo b = true → isPseudo a = true) ∧
       (∀ n ∈ pseudoNames hs, n ∉ st.seen) ∧ (pseudoNames hs).Nodup ∧
       st' = { seen := st.seen ++ pseudoNames hs,
               seenRegular := st.seenRegular || hs.any (fun h => !isPseudo h),
               method := lastMethod st.method hs }) := by
  induction hs generalizing st with
  | nil =>
    simp [pseudoNames, lastMethod, pure]
    constructor
    · intro h; cases h; rfl
    · intro h; rw [h]
  | cons h t ih =>
    rw [List.foldlM_cons]
    by_cases hp : isPseudo h = true
    · have hp' : h.name.startsWith [58] = true := hp
      by_cases hseen : st.seen.contains (HStr.b h.name.bs) = true
      · -- duplicate
        have key : pseudoStep st h = none := by simp only [pseudoStep, hp', if_true, hseen]
        rw [key]
        simp only [Option.bind_eq_bind, Option.bind_none]
        constructor
        · intro hh; cases hh
        · rintro ⟨_, _, _, hnot, _⟩
          exact absurd (by simpa using hseen) (hnot (HStr.b h.name.bs) (by rw [pseudoNames_cons_pseudo h t hp]; exact List.mem_cons_self))
      · by_cases hreg : st.seenRegular = true
        · have key : pseudoStep st h = none := by
            simp only [pseudoStep, hp', if_true, hseen, hreg, Bool.false_eq_true, if_false]
          rw [key]
          simp only [Option.bind_eq_bind, Option.bind_none]
          constructor
          · intro hh; cases hh
          · rintro ⟨_, hr, _⟩
            have := hr hreg h List.mem_cons_self
            rw [hp] at this; cases this
        · by_cases hal : allowedPseudo h.name = true
          · have hal' : inSet h.name ALLOWED_PSEUDO_HEADER_FIELDS_b ALLOWED_PSEUDO_HEADER_FIELDS_s = true := hal
            have hregf : st.seenRegular = false := by simpa using hreg
            have key : pseudoStep st h = some (PseudoSt.mk (st.seen ++ [HStr.b h.name.bs]) false
                (if h.name.isLit (strBytes ":method") then some h.value.toBytes else st.method)) := by
              simp only [pseudoStep, hp', if_true, hseen, hregf, hal', Bool.false_eq_true, if_false, Bool.not_true]
              split <;> simp [hregf]
            rw [key]
            simp only [Option.bind_eq_bind, Option.bind_some]
            rw [ih]
            simp only [pseudoNames_cons_pseudo h t hp, List.mem_cons, forall_eq_or_imp, List.pairwise_cons,
              List.nodup_cons, List.mem_append, List.mem_singleton, not_or, Bool.false_eq_true, false_imp_iff, true_and,
              hregf, List.any_cons, hp, Bool.not_true, Bool.false_or, List.append_assoc, List.singleton_append, lastMethod,
              List.foldl_cons, Bool.true_and]
            have hns : HStr.b h.name.bs ∉ st.seen := by simpa using hseen
            constructor
            · rintro ⟨hk, hpw, hnot, hnd, heq⟩
              refine ⟨⟨fun _ => hal, hk⟩, ⟨fun _ _ _ => trivial, hpw⟩, ⟨hns, fun n hn => (hnot n hn).1⟩, ⟨?_, hnd⟩, heq⟩
              intro hmem; exact (hnot _ hmem).2.1 rfl
            · rintro ⟨⟨_, hk⟩, ⟨_, hpw⟩, ⟨_, hnot⟩, ⟨hnm, hnd⟩, heq⟩
              refine ⟨hk, hpw, fun n hn => ⟨hnot n hn, fun he => hnm (by rw [← he]; exact hn), by simp⟩, hnd, heq⟩
          · have hal' : inSet h.name ALLOWED_PSEUDO_HEADER_FIELDS_b ALLOWED_PSEUDO_HEADER_FIELDS_s = false := by
              simpa [allowedPseudo] using hal
            have hregf : st.seenRegular = false := by simpa using hreg
            have key : pseudoStep st h = none := by
              simp only [pseudoStep, hp', if_true, hseen, hregf, hal', Bool.false_eq_true, if_false, Bool.not_false]
            rw [key]
            simp only [Option.bind_eq_bind, Option.bind_none]
            constructor
            · intro hh; cases hh
            · rintro ⟨hk, _⟩
              exact absurd (hk h List.mem_cons_self hp) hal
    · have hpf : isPseudo h = false := by simpa using hp
      have hp' : h.name.startsWith [58] = false := hpf
      have key : pseudoStep st h = some { st with seenRegular := true } := by
        simp only [pseudoStep, hp', Bool.false_eq_true, if_false]
      rw [key]
      simp only [Option.bind_eq_bind, Option.bind_some]
      rw [ih]
      simp only [pseudoNames_cons_regular h t hpf, List.mem_cons, forall_eq_or_imp, List.pairwise_cons, hpf,
        Bool.false_eq_true, false_imp_iff, true_and, List.any_cons, Bool.not_false, Bool.true_or, Bool.or_true, lastMethod,
        List.foldl_cons, Bool.false_and, if_false, forall_const, imp_false, Bool.not_eq_true]
      constructor
      · rintro ⟨hk, hnone, hpw, hnot, hnd, heq⟩
        exact ⟨hk, fun _ => hnone, ⟨hnone, hpw⟩, hnot, hnd, heq⟩
      · rintro ⟨hk, _, ⟨hnone, hpw⟩, hnot, hnd, heq⟩
        exact ⟨hk, hnone, hpw, hnot, hnd, heq⟩

/-- `_reject_pseudo_header_fields` + `_check_pseudo_header_field_acceptability` = shape rules + role rules -/
theorem pseudoOk_iff (hs : List Header) (fl : HdrFlags) :
    pseudoOk hs fl = true ↔
      PseudoShape hs ∧ pseudoAcceptable (pseudoNames hs) (lastMethod none hs) fl = true := by
  unfold pseudoOk
  constructor
  · intro h
    cases hf : hs.foldlM pseudoStep ({} : PseudoSt) with
    | none => rw [hf] at h; cases h
    | some st =>
      rw [hf] at h
      obtain ⟨hk, _, hpw, _, hnd, heq⟩ := (foldlM_pseudoStep hs {} st).mp hf
      refine ⟨⟨hk, hpw, hnd⟩, ?_⟩
      rw [heq] at h
      simpa using h
  · rintro ⟨⟨hk, hpw, hnd⟩, hacc⟩
    have := (foldlM_pseudoStep hs {} _).mpr ⟨hk, (fun h => by cases h), hpw, (fun n _ hn => by cases hn), hnd, rfl⟩
    rw [this]
    simpa using hacc

/-! ### the role rules (which pseudo-header fields a block of each type must / must not carry) -/

/-- the block carries the pseudo-header field `lit` (as bytes or as text) -/
def hasPseudo (hs : List Header) (lit : String) : Bool := hs.any fun h => isPseudo h && h.name.bs == strBytes lit

theorem seenLit_pseudoNames (hs : List Header) (lit : String) : seenLit (pseudoNames hs) lit = hasPseudo hs lit := by
  simp [seenLit, pseudoNames, hasPseudo, List.any_map, List.any_filter, Function.comp_def, HStr.b]

theorem tables_as_literals :
    REQUEST_ONLY_HEADERS_b = [strBytes ":authority", strBytes ":method", strBytes ":path", strBytes ":protocol", strBytes ":scheme"] ∧
    REQUEST_ONLY_HEADERS_s = REQUEST_ONLY_HEADERS_b ∧
    RESPONSE_ONLY_HEADERS_b = [strBytes ":status"] ∧ RESPONSE_ONLY_HEADERS_s = RESPONSE_ONLY_HEADERS_b ∧
    CONNECT_REQUEST_ONLY_HEADERS_b = [strBytes ":protocol"] ∧ CONNECT_REQUEST_ONLY_HEADERS_s = CONNECT_REQUEST_ONLY_HEADERS_b ∧
    ALLOWED_PSEUDO_HEADER_FIELDS_b = [strBytes ":authority", strBytes ":method", strBytes ":path", strBytes ":protocol",
      strBytes ":scheme", strBytes ":status"] ∧
    ALLOWED_PSEUDO_HEADER_FIELDS_s = ALLOWED_PSEUDO_HEADER_FIELDS_b ∧
    CONNECTION_HEADERS_b = [strBytes "connection", strBytes "keep-alive", strBytes "proxy-connection",
      strBytes "transfer-encoding", strBytes "upgrade"] ∧
    CONNECTION_HEADERS_s = CONNECTION_HEADERS_b ∧
    SECURE_HEADERS_b = [strBytes "authorization", strBytes "proxy-authorization"] ∧ SECURE_HEADERS_s = SECURE_HEADERS_b ∧
    WHITESPACE = [9, 10, 11, 12, 13, 32] := by decide +kernel

theorem inSet_same (n : HStr) (l : List Bytes) : inSet n l l = l.contains n.bs := by
  unfold inSet; split <;> rfl

theorem any_inSet (hs : List Header) (l : List Bytes) :
    ((pseudoNames hs).any fun n => inSet n l l) = l.any fun lit => hs.any fun h => isPseudo h && h.name.bs == lit := by
  rw [Bool.eq_iff_iff]
  simp only [inSet_same, pseudoNames, List.any_map, List.any_filter, Function.comp_def, List.contains_eq_any_beq,
    List.any_eq_true, Bool.and_eq_true, beq_iff_eq]
  constructor
  · rintro ⟨h, hh, hp, lit, hl, he⟩; exact ⟨lit, hl, h, hh, hp, he⟩
  · rintro ⟨lit, hl, h, hh, hp, he⟩; exact ⟨h, hh, hp, lit, hl, he⟩

/-- role rules by block type: trailers carry no pseudo-header fields; responses carry `:status` and no request
    pseudo-header field; requests (and pushed requests) carry `:method`, `:scheme`, `:path`, no `:status`, and
    `:protocol` only with the CONNECT method -/
structure RoleOk (hs : List Header) (fl : HdrFlags) : Prop where
  trailer : fl.isTrailer = true → ∀ h ∈ hs, isPseudo h = false
  response : fl.isResponse = true →
    hasPseudo hs ":status" = true ∧ hasPseudo hs ":authority" = false ∧ hasPseudo hs ":method" = false ∧
    hasPseudo hs ":path" = false ∧ hasPseudo hs ":protocol" = false ∧ hasPseudo hs ":scheme" = false
  request : fl.isResponse = false → fl.isTrailer = false →
    hasPseudo hs ":path" = true ∧ hasPseudo hs ":method" = true ∧ hasPseudo hs ":scheme" = true ∧
    hasPseudo hs ":status" = false ∧
    (hasPseudo hs ":protocol" = true → lastMethod none hs = some (strBytes "CONNECT"))

theorem pseudoNames_isEmpty (hs : List Header) : (pseudoNames hs).isEmpty = true ↔ ∀ h ∈ hs, isPseudo h = false := by
  unfold pseudoNames
  rw [List.isEmpty_iff, List.map_eq_nil_iff, List.filter_eq_nil_iff]
  constructor
  · intro h a ha; simpa using h a ha
  · intro h a ha; simp [h a ha]

theorem roleOk_iff (hs : List Header) (fl : HdrFlags) :
    RoleOk hs fl ↔
      ((fl.isTrailer = true → ∀ h ∈ hs, isPseudo h = false) ∧
       (fl.isResponse = true →
          hasPseudo hs ":status" = true ∧ hasPseudo hs ":authority" = false ∧ hasPseudo hs ":method" = false ∧
          hasPseudo hs ":path" = false ∧ hasPseudo hs ":protocol" = false ∧ hasPseudo hs ":scheme" = false) ∧
       (fl.isResponse = false → fl.isTrailer = false →
          hasPseudo hs ":path" = true ∧ hasPseudo hs ":method" = true ∧ hasPseudo hs ":scheme" = true ∧
          hasPseudo hs ":status" = false ∧
          (hasPseudo hs ":protocol" = true → lastMethod none hs = some (strBytes "CONNECT")))) :=
  ⟨fun ⟨a, b, c⟩ => ⟨a, b, c⟩, fun ⟨a, b, c⟩ => ⟨a, b, c⟩⟩

theorem no_status_of_no_pseudo (hs : List Header) (h : ∀ x ∈ hs, isPseudo x = false) (lit : String) :
    hasPseudo hs lit = false := by
  unfold hasPseudo
  rw [List.any_eq_false]
  intro x hx; simp [h x hx]

theorem pseudoAcceptable_iff (hs : List Header) (fl : HdrFlags) :
    pseudoAcceptable (pseudoNames hs) (lastMethod none hs) fl = true ↔ RoleOk hs fl := by
  obtain ⟨hq, hqs, hr, hrs, hc, hcs, _⟩ := tables_as_literals
  rw [roleOk_iff]
  unfold pseudoAcceptable
  simp only [seenLit_pseudoNames]
  rw [hqs, hrs, hcs, any_inSet, any_inSet, any_inSet, hq, hr, hc]
  simp only [List.any_cons, List.any_nil, Bool.or_false]
  have e : ∀ lit : String, (hs.any fun h => isPseudo h && h.name.bs == strBytes lit) = hasPseudo hs lit := fun _ => rfl
  simp only [e]
  have hemp := pseudoNames_isEmpty hs
  obtain ⟨cl, tr, rs, pu⟩ := fl
  cases tr <;> cases rs <;> simp only [Bool.false_and, Bool.true_and, Bool.false_eq_true, if_false, Bool.not_false,
    Bool.and_self, if_true, false_imp_iff, true_imp_iff, true_and, and_true, Bool.not_true, forall_const,
    Bool.true_eq_false, eq_self_iff_true]
  · -- request
    constructor
    · intro h
      simp only [Bool.and_eq_true, Bool.not_eq_true', Bool.or_eq_true, beq_iff_eq] at h
      obtain ⟨⟨⟨⟨hp, hm⟩, hs'⟩, hst⟩, hcon⟩ := h
      refine ⟨hp, hm, hs', hst, ?_⟩
      intro hpr
      rcases hcon with hcon | hcon
      · exact hcon
      · rw [hpr] at hcon; cases hcon
    · rintro ⟨hp, hm, hs', hst, hcon⟩
      simp only [hp, hm, hs', hst, Bool.and_self, Bool.not_false, Bool.true_and, Bool.or_eq_true, beq_iff_eq,
        Bool.not_eq_true']
      cases hpr : hasPseudo hs ":protocol"
      · exact Or.inr rfl
      · exact Or.inl (hcon hpr)
  · -- response
    constructor
    · intro h
      simp only [Bool.and_eq_true, Bool.not_eq_true', Bool.or_eq_false_iff] at h
      obtain ⟨hst, ha, hm, hp, hpr, hsc⟩ := h
      exact ⟨hst, ha, hm, hp, hpr, hsc⟩
    · rintro ⟨hst, ha, hm, hp, hpr, hsc⟩
      simp [hst, ha, hm, hp, hpr, hsc]
  · -- trailers
    by_cases hne : (pseudoNames hs).isEmpty = true
    · simp only [hne, Bool.not_true, Bool.false_eq_true, if_false, true_iff]
      exact hemp.mp hne
    · have hne' : (pseudoNames hs).isEmpty = false := by simpa using hne
      simp only [hne', Bool.not_false, if_true, Bool.false_eq_true, false_iff]
      intro htr
      exact hne (hemp.mpr htr)
  · -- both flags (never built by `_build_hdr_validation_flags`): unsatisfiable
    by_cases hne : (pseudoNames hs).isEmpty = true
    · simp only [hne, Bool.not_true, Bool.false_eq_true, if_false]
      have := no_status_of_no_pseudo hs (hemp.mp hne) ":status"
      simp [this]
    · have hne' : (pseudoNames hs).isEmpty = false := by simpa using hne
      simp only [hne', Bool.not_false, if_true, Bool.false_eq_true, false_iff]
      rintro ⟨htr, _⟩
      exact hne (hemp.mpr htr)

/-! ### the per-field rules -/

/-- ASCII whitespace as `utilities._reject_surrounding_whitespace` knows it: TAB LF VT FF CR SPACE -/
def WS : List UInt8 := [9, 10, 11, 12, 13, 32]

/-- neither the first nor the last byte is whitespace -/
def EdgeClean (b : Bytes) : Prop :=
  (∀ c, b.head? = some c → c ∉ WS) ∧ (∀ c, b.getLast? = some c → c ∉ WS)

/-- the rules every single field has to meet -/
structure FieldOk (h : Header) : Prop where
  nonempty : h.name.bs ≠ []
  lowercase : ∀ c ∈ h.name.bs, ¬ (65 ≤ c ∧ c ≤ 90)
  nameClean : EdgeClean h.name.bs
  valueClean : EdgeClean h.value.bs
  te : h.name.bs = strBytes "te" → bytesLower h.value.bs = strBytes "trailers"
  notConnectionSpecific : h.name.bs ∉ [strBytes "connection", strBytes "keep-alive", strBytes "proxy-connection",
    strBytes "transfer-encoding", strBytes "upgrade"]

theorem isWsByte_iff (c : UInt8) : isWsByte c = true ↔ c ∈ WS := by
  unfold isWsByte
  rw [tables_as_literals.2.2.2.2.2.2.2.2.2.2.2.2]
  simp [WS]

theorem getLastD_eq (b : Bytes) (c : UInt8) (t : Bytes) (h : b = c :: t) : ∃ l, b.getLast? = some l ∧ b.getLastD 0 = l := by
  subst h
  cases hl : (c :: t).getLast? with
  | none => simp at hl
  | some l => exact ⟨l, rfl, by rw [List.getLastD_eq_getLast?, hl]; rfl⟩

theorem edge_iff (b : Bytes) (c : UInt8) (t : Bytes) (h : b = c :: t) :
    (!(isWsByte c) && !(isWsByte (b.getLastD 0))) = true ↔ EdgeClean b := by
  obtain ⟨l, hl, hd⟩ := getLastD_eq b c t h
  rw [hd]
  unfold EdgeClean
  rw [hl, h]
  simp only [List.head?_cons, Option.some.injEq, forall_eq', Bool.and_eq_true, Bool.not_eq_true', ← isWsByte_iff]
  constructor
  · rintro ⟨h1, h2⟩; exact ⟨by simp [h1], by simp [h2]⟩
  · rintro ⟨h1, h2⟩; exact ⟨by simpa using h1, by simpa using h2⟩

theorem edgeClean_nil : EdgeClean [] := by
  constructor <;> intro c h <;> simp at h

theorem surroundOk_iff (h : Header) :
    surroundOk h = true ↔ h.name.bs ≠ [] ∧ EdgeClean h.name.bs ∧ EdgeClean h.value.bs := by
  unfold surroundOk
  cases hn : h.name.bs with
  | nil => simp
  | cons c t =>
    simp only [ne_eq, reduceCtorEq, not_false_eq_true, true_and]
    have e1 := edge_iff (c :: t) c t rfl
    cases hv : h.value.bs with
    | nil =>
      simp only [List.isEmpty_nil, Bool.true_or, Bool.and_true]
      rw [e1]; exact ⟨fun h => ⟨h, edgeClean_nil⟩, fun h => h.1⟩
    | cons d u =>
      have e2 := edge_iff (d :: u) d u rfl
      simp only [List.isEmpty_cons, Bool.false_or, List.headD_cons]
      rw [Bool.and_eq_true, e1, e2]

theorem hasUpper_iff (b : Bytes) : hasUpper b = false ↔ ∀ c ∈ b, ¬ (65 ≤ c ∧ c ≤ 90) := by
  unfold hasUpper
  rw [List.any_eq_false]
  constructor
  · intro h c hc; have := h c hc; simpa using this
  · intro h c hc; have := h c hc; simpa using this

theorem teOk_iff (h : Header) : teOk h = true ↔ (h.name.bs = strBytes "te" → bytesLower h.value.bs = strBytes "trailers") := by
  unfold teOk HStr.isLit HStr.lower
  simp only [Bool.or_eq_true, Bool.not_eq_true', beq_eq_false_iff_ne, beq_iff_eq]
  constructor
  · rintro (h1 | h1) h2
    · exact absurd h2 h1
    · exact h1
  · intro h1
    by_cases h2 : h.name.bs = strBytes "te"
    · exact Or.inr (h1 h2)
    · exact Or.inl h2

theorem connOk_iff (h : Header) : connOk h = true ↔
    h.name.bs ∉ [strBytes "connection", strBytes "keep-alive", strBytes "proxy-connection", strBytes "transfer-encoding",
      strBytes "upgrade"] := by
  unfold connOk
  obtain ⟨_, _, _, _, _, _, _, _, hc, hcs, _⟩ := tables_as_literals
  rw [hcs, inSet_same, hc]
  simp only [Bool.not_eq_true', List.contains_eq_mem, decide_eq_false_iff_not]

theorem fieldOk_iff (h : Header) :
    (!hasUpper h.name.bs && surroundOk h && teOk h && connOk h) = true ↔ FieldOk h := by
  simp only [Bool.and_eq_true, Bool.not_eq_true', hasUpper_iff, surroundOk_iff, teOk_iff, connOk_iff]
  constructor
  · rintro ⟨⟨⟨hl, hne, hnc, hvc⟩, hte⟩, hco⟩; exact ⟨hne, hl, hnc, hvc, hte, hco⟩
  · rintro ⟨hne, hl, hnc, hvc, hte, hco⟩; exact ⟨⟨⟨hl, hne, hnc, hvc⟩, hte⟩, hco⟩

/-! ### the whole inbound rule book -/

/-- RFC 7540 section 8.1.2 for one received header block of the type given by `fl` -/
structure ConformantIn (hs : List Header) (fl : HdrFlags) : Prop where
  fields : ∀ h ∈ hs, FieldOk h
  shape : PseudoShape hs
  role : RoleOk hs fl
  /-- requests only: `:authority` or `Host` is present, and they agree when both are -/
  hostAuthority : fl.isResponse = false → fl.isTrailer = false → hostAuthorityOk hs = true
  /-- requests only: `:path` is not empty -/
  path : fl.isResponse = false → fl.isTrailer = false → ∀ h ∈ hs, h.name.bs = strBytes ":path" → h.value.bs ≠ []

theorem pathOk_iff (h : Header) : pathOk h = true ↔ (h.name.bs = strBytes ":path" → h.value.bs ≠ []) := by
  unfold pathOk HStr.isLit
  simp only [Bool.or_eq_true, Bool.not_eq_true', beq_eq_false_iff_ne, List.isEmpty_eq_false_iff]
  constructor
  · rintro (h1 | h1) h2
    · exact absurd h2 h1
    · exact h1
  · intro h1
    by_cases h2 : h.name.bs = strBytes ":path"
    · exact Or.inr (h1 h2)
    · exact Or.inl h2

theorem all4 (hs : List Header) :
    (hs.all (fun h => !hasUpper h.name.bs) && hs.all surroundOk && hs.all teOk && hs.all connOk) =
    hs.all (fun h => !hasUpper h.name.bs && surroundOk h && teOk h && connOk h) := by
  induction hs with
  | nil => rfl
  | cons h t ih =>
    simp only [List.all_cons, ← ih]
    cases (!hasUpper h.name.bs) <;> cases surroundOk h <;> cases teOk h <;> cases connOk h <;> simp

/-- **`validate_headers` accepts exactly the conformant blocks**, returns them unchanged, and refuses every other
    block with a ProtocolError -/
theorem validateInbound_iff (hs : List Header) (fl : HdrFlags) :
    (validateInbound hs fl = .ok hs ↔ ConformantIn hs fl) ∧
    (¬ ConformantIn hs fl → validateInbound hs fl = .error protoErr) := by
  have key : (hs.all (fun h => !hasUpper h.name.bs) && hs.all surroundOk && hs.all teOk && hs.all connOk
     && pseudoOk hs fl && ((fl.isResponse || fl.isTrailer) || hostAuthorityOk hs)
     && ((fl.isResponse || fl.isTrailer) || hs.all pathOk)) = true ↔ ConformantIn hs fl := by
    rw [all4]
    have hfield : (hs.all (fun h => !hasUpper h.name.bs && surroundOk h && teOk h && connOk h)) = true ↔ ∀ h ∈ hs, FieldOk h := by
      rw [List.all_eq_true]
      exact ⟨fun h x hx => (fieldOk_iff x).mp (h x hx), fun h x hx => (fieldOk_iff x).mpr (h x hx)⟩
    simp only [Bool.and_eq_true, hfield, pseudoOk_iff, pseudoAcceptable_iff, Bool.or_eq_true, List.all_eq_true, pathOk_iff]
    constructor
    · rintro ⟨⟨⟨hf, hsh, hro⟩, hha⟩, hpa⟩
      refine ⟨hf, hsh, hro, ?_, ?_⟩
      · intro h1 h2
        rcases hha with (h | h) | h
        · rw [h1] at h; cases h
        · rw [h2] at h; cases h
        · exact h
      · intro h1 h2
        rcases hpa with (h | h) | h
        · rw [h1] at h; cases h
        · rw [h2] at h; cases h
        · exact h
    · rintro ⟨hf, hsh, hro, hha, hpa⟩
      refine ⟨⟨⟨hf, hsh, hro⟩, ?_⟩, ?_⟩
      · cases h1 : fl.isResponse
        · cases h2 : fl.isTrailer
          · exact Or.inr (hha h1 h2)
          · exact Or.inl (Or.inr rfl)
        · exact Or.inl (Or.inl rfl)
      · cases h1 : fl.isResponse
        · cases h2 : fl.isTrailer
          · exact Or.inr (hpa h1 h2)
          · exact Or.inl (Or.inr rfl)
        · exact Or.inl (Or.inl rfl)
  unfold validateInbound
  simp only
  constructor
  · rw [← key]
    split
    · rename_i h; simp [h]
    · rename_i h; simp [h]
  · intro hn
    rw [← key] at hn
    rw [if_neg hn]

/-! ### outbound normalisation -/

theorem head_dropWhile {α} (p : α → Bool) (l : List α) (c : α) (h : (l.dropWhile p).head? = some c) : p c = false := by
  induction l with
  | nil => simp at h
  | cons a t ih =>
    rw [List.dropWhile_cons] at h
    split at h
    · exact ih h
    · rename_i hp
      simp only [List.head?_cons, Option.some.injEq] at h
      subst h; simpa using hp

theorem getLast_dropWhile {α} (p : α → Bool) (l : List α) (c : α) (h : (l.dropWhile p).getLast? = some c) :
    l.getLast? = some c := by
  induction l with
  | nil => simp at h
  | cons a t ih =>
    rw [List.dropWhile_cons] at h
    split at h
    · have := ih h
      cases t with
      | nil => simp at this
      | cons b u => rw [List.getLast?_cons_cons]; exact this
    · exact h

theorem stripWith_edge (ws : UInt8 → Bool) (b : Bytes) :
    (∀ c, (stripWith ws b).head? = some c → ws c = false) ∧ (∀ c, (stripWith ws b).getLast? = some c → ws c = false) := by
  unfold stripWith
  constructor
  · intro c h
    rw [List.head?_reverse] at h
    have h2 := getLast_dropWhile ws _ c h
    rw [List.getLast?_reverse] at h2
    exact head_dropWhile ws b c h2
  · intro c h
    rw [List.getLast?_reverse] at h
    exact head_dropWhile ws _ c h

theorem mem_stripWith (ws : UInt8 → Bool) (b : Bytes) (c : UInt8) (h : c ∈ stripWith ws b) : c ∈ b := by
  unfold stripWith at h
  rw [List.mem_reverse] at h
  have h1 := (List.dropWhile_sublist ws).subset h
  rw [List.mem_reverse] at h1
  exact (List.dropWhile_sublist ws).subset h1

theorem asciiLower_not_upper (c : UInt8) : ¬ (65 ≤ asciiLowerByte c ∧ asciiLowerByte c ≤ 90) := by
  unfold asciiLowerByte
  split
  · rename_i h
    obtain ⟨h1, h2⟩ := h
    intro ⟨h3, h4⟩
    have e : (c + 32).toNat = (c.toNat + 32) % 256 := by simp [UInt8.toNat_add]
    have a1 : 65 ≤ c.toNat := by simpa using UInt8.le_iff_toNat_le.mp h1
    have a2 : c.toNat ≤ 90 := by simpa using UInt8.le_iff_toNat_le.mp h2
    have a4 : (c + 32).toNat ≤ 90 := by simpa using UInt8.le_iff_toNat_le.mp h4
    omega
  · rename_i h; exact h

theorem ws_of_WS (c : UInt8) (h : c ∈ WS) : isBytesWs c = true ∧ isStrWs c = true := by
  have : isBytesWs c = true := by
    simp only [WS, List.mem_cons, List.not_mem_nil, or_false] at h
    unfold isBytesWs
    rcases h with h | h | h | h | h | h <;> subst h <;> decide
  exact ⟨this, by unfold isStrWs; simp [this]⟩

theorem strip_edgeClean (h : HStr) : EdgeClean h.strip.bs := by
  unfold HStr.strip EdgeClean
  simp only
  obtain ⟨e1, e2⟩ := stripWith_edge (if h.isStr then isStrWs else isBytesWs) h.bs
  constructor
  · intro c hc hw
    have := e1 c hc
    obtain ⟨w1, w2⟩ := ws_of_WS c hw
    split at this <;> simp_all
  · intro c hc hw
    have := e2 c hc
    obtain ⟨w1, w2⟩ := ws_of_WS c hw
    split at this <;> simp_all

/-- what `normalize_outbound_headers` guarantees for every field it lets through -/
structure NormalisedField (h : Header) : Prop where
  lowercase : ∀ c ∈ h.name.bs, ¬ (65 ≤ c ∧ c ≤ 90)
  nameClean : EdgeClean h.name.bs
  valueClean : EdgeClean h.value.bs
  notConnectionSpecific : h.name.bs ∉ [strBytes "connection", strBytes "keep-alive", strBytes "proxy-connection",
    strBytes "transfer-encoding", strBytes "upgrade"]
  /-- authorization and proxy-authorization are never indexed -/
  sensitive : h.name.bs ∈ [strBytes "authorization", strBytes "proxy-authorization"] → h.ni = true
  /-- short cookies are never indexed -/
  shortCookie : h.name.bs = strBytes "cookie" → h.value.bs.length < 20 → h.ni = true

theorem secureHeader_name (h : Header) : (secureHeader h).name = h.name ∧ (secureHeader h).value = h.value := by
  unfold secureHeader; split
  · exact ⟨rfl, rfl⟩
  · split <;> exact ⟨rfl, rfl⟩

theorem secureHeader_marks (h : Header) :
    (h.name.bs ∈ [strBytes "authorization", strBytes "proxy-authorization"] → (secureHeader h).ni = true) ∧
    (h.name.bs = strBytes "cookie" → h.value.bs.length < 20 → (secureHeader h).ni = true) := by
  obtain ⟨_, _, _, _, _, _, _, _, _, _, hs, hss, _⟩ := tables_as_literals
  unfold secureHeader
  rw [hss, inSet_same, hs]
  constructor
  · intro hm
    have : ([strBytes "authorization", strBytes "proxy-authorization"].contains h.name.bs) = true := by
      simpa [List.contains_eq_mem] using hm
    rw [if_pos this]
  · intro hc hl
    split
    · rfl
    · have : (h.name.isLit (strBytes "cookie") && decide (h.value.bs.length < 20)) = true := by
        simp [HStr.isLit, hc, hl]
      rw [if_pos this]

theorem normalizeOutbound_fields (hs : List Header) : ∀ h ∈ normalizeOutbound hs, NormalisedField h := by
  intro h hh
  unfold normalizeOutbound at hh
  simp only [List.mem_map, List.mem_filter] at hh
  obtain ⟨h1, ⟨⟨h2, ⟨h3, h3mem, h3eq⟩, h2eq⟩, hconn⟩, hsec⟩ := hh
  subst hsec h2eq h3eq
  obtain ⟨en, ev⟩ := secureHeader_name { name := (HStr.lower h3.name).strip, value := h3.value.strip, ni := h3.ni }
  obtain ⟨m1, m2⟩ := secureHeader_marks { name := (HStr.lower h3.name).strip, value := h3.value.strip, ni := h3.ni }
  have hc := (connOk_iff { name := (HStr.lower h3.name).strip, value := h3.value.strip, ni := h3.ni }).mp
    (by unfold connOk; exact hconn)
  refine ⟨?_, ?_, ?_, ?_, ?_, ?_⟩
  · rw [en]; intro c hcm
    have : c ∈ (HStr.lower h3.name).bs := mem_stripWith _ _ c hcm
    unfold HStr.lower bytesLower at this
    simp only [List.mem_map] at this
    obtain ⟨d, _, hd⟩ := this
    rw [← hd]; exact asciiLower_not_upper d
  · rw [en]; exact strip_edgeClean _
  · rw [ev]; exact strip_edgeClean _
  · rw [en]; exact hc
  · rw [en]; exact m1
  · rw [en, ev]; exact m2

/-! ### outbound validation -/

/-- what `validate_outbound_headers` checks (the rules normalisation cannot establish by itself) -/
structure ConformantOut (hs : List Header) (fl : HdrFlags) : Prop where
  /-- no field name is empty (a name of whitespace only is, once trimmed) -/
  nonempty : ∀ h ∈ hs, h.name.bs ≠ []
  te : ∀ h ∈ hs, h.name.bs = strBytes "te" → bytesLower h.value.bs = strBytes "trailers"
  notConnectionSpecific : ∀ h ∈ hs, h.name.bs ∉ [strBytes "connection", strBytes "keep-alive", strBytes "proxy-connection",
    strBytes "transfer-encoding", strBytes "upgrade"]
  shape : PseudoShape hs
  role : RoleOk hs fl
  hostAuthority : fl.isResponse = false → fl.isTrailer = false → hostAuthorityOk hs = true
  path : fl.isResponse = false → fl.isTrailer = false → ∀ h ∈ hs, h.name.bs = strBytes ":path" → h.value.bs ≠ []

theorem validateOutbound_iff (hs : List Header) (fl : HdrFlags) :
    (validateOutbound hs fl = .ok hs ↔ ConformantOut hs fl) ∧
    (¬ ConformantOut hs fl → validateOutbound hs fl = .error protoErr) := by
  have key : (hs.all (fun h => !h.name.bs.isEmpty) && hs.all teOk && hs.all connOk && pseudoOk hs fl
     && ((fl.isResponse || fl.isTrailer) || hostAuthorityOk hs)
     && ((fl.isResponse || fl.isTrailer) || hs.all pathOk)) = true ↔ ConformantOut hs fl := by
    simp only [Bool.and_eq_true, List.all_eq_true, teOk_iff, connOk_iff, pseudoOk_iff, pseudoAcceptable_iff, Bool.or_eq_true,
      pathOk_iff, Bool.not_eq_true', List.isEmpty_eq_false_iff]
    constructor
    · rintro ⟨⟨⟨⟨⟨hne, hte⟩, hco⟩, hsh, hro⟩, hha⟩, hpa⟩
      refine ⟨hne, hte, hco, hsh, hro, ?_, ?_⟩
      · intro h1 h2
        rcases hha with (h | h) | h
        · rw [h1] at h; cases h
        · rw [h2] at h; cases h
        · exact h
      · intro h1 h2
        rcases hpa with (h | h) | h
        · rw [h1] at h; cases h
        · rw [h2] at h; cases h
        · exact h
    · rintro ⟨hne, hte, hco, hsh, hro, hha, hpa⟩
      refine ⟨⟨⟨⟨⟨hne, hte⟩, hco⟩, hsh, hro⟩, ?_⟩, ?_⟩
      · cases h1 : fl.isResponse
        · cases h2 : fl.isTrailer
          · exact Or.inr (hha h1 h2)
          · exact Or.inl (Or.inr rfl)
        · exact Or.inl (Or.inl rfl)
      · cases h1 : fl.isResponse
        · cases h2 : fl.isTrailer
          · exact Or.inr (hpa h1 h2)
          · exact Or.inl (Or.inr rfl)
        · exact Or.inl (Or.inl rfl)
  unfold validateOutbound
  simp only
  constructor
  · rw [← key]
    split
    · rename_i h; simp [h]
    · rename_i h; simp [h]
  · intro hn
    rw [← key] at hn
    rw [if_neg hn]

end H2
