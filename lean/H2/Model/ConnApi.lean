/-
  H2Connection, part 2: the public send-side API.
-/
import H2.Model.Conn

namespace H2
open H2.Gen

namespace Conn

/-- `_receive_settings_frame` is needed by initiate_upgrade_connection; defined in ConnRecv, so the
    upgrade path takes it as a parameter. -/
def initiateUpgradeConnection (recvSettings : List (Int × Int) → CM Unit) (settingsHeader : Option Bytes) :
    CM (Option Bytes) := do
  let c ← getS
  -- the server decodes the HTTP2-Settings value first: a value that is not a SETTINGS payload is a ProtocolError
  let items : Option (List (Int × Int)) ← if c.cfg.client then pure none else
    match settingsHeader with
    | none => pure none
    | some [] => pure none                      -- `and settings_header` — empty is falsy
    | some h =>
      match b64Decode h with
      | none => raise (.py (.Other "UNMODELLED"))
      | some body =>
        -- f = SettingsFrame(0); f.parse_body(body)
        match parseBody { length := body.length, type := 4, flags := 0, sid := 0 } body with
        | .ok { frame := .settings _ items, .. } => pure (some items)
        | _ => raise pErr
  -- everything that can be refused comes before the preamble is written
  match items with
  | some items => recvSettings items
  | none => pure ()
  connInput (if c.cfg.client then .SEND_HEADERS else .RECV_HEADERS)
  beginNewStream 1 true
  withStream 1 (Stream.upgrade c.cfg.client)
  initiateConnection
  if c.cfg.client then do
    let f ← settingsFrameOfLocal
    match f.body? with
    | none => raise (.py .StructError)
    | some b => pure (some (b64Encode b))
  else pure none

def getNextAvailableStreamId : CM Int := do
  let c ← getS
  let next := if c.highestOut == 0 then (if c.cfg.client then 1 else 2) else c.highestOut + 2
  if next > HIGHEST_ALLOWED_STREAM_ID then raise (mkExc .NoAvailableStreamIDError) else pure next

/-- `_add_frame_priority` on the first frame of the block, when priority arguments were given -/
def addPriority (priorityPresent : Bool) (frames : List Frame) (pw pd : Option Int) (pe : Option Bool) : CM (List Frame) :=
  if priorityPresent then
    match frames with
    | .headers s b es eh pad _ :: rest => do
      let p ← liftExcept (framePriority s pw pd pe)
      pure (Frame.headers s b es eh pad (some p) :: rest)
    | _ => raise (.py .IndexError)
  else pure frames

/-- `send_headers` once the call is admitted (`c0` is the state the call started in) -/
def sendHeadersTail (c0 : Conn) (sid : Int) (headers : List Header) (endStream : Bool)
    (pw pd : Option Int) (pe : Option Bool) : CM Unit := do
  let priorityPresent := pw.isSome || pd.isSome || pe.isSome
  connInput .SEND_HEADERS
  let opening := !hasStream c0 sid
  getOrCreateStream sid c0.cfg.client
  let frames ← tryCatch (withStreamHp sid (Stream.sendHeaders c0.cfg headers endStream priorityPresent))
    (fun _ => true)
    (fun e => do
      -- a refused request leaves no idle stream behind: `del self.streams[stream_id]`, highest id restored
      if opening then
        modifyS (fun c' => { c' with streams := c'.streams.filter (fun s => s.1 != sid), highestOut := c0.highestOut })
      raise e)
  let frames ← addPriority priorityPresent frames pw pd pe
  prepareForSending frames

def sendHeaders (sid : Int) (headers : List Header) (endStream : Bool)
    (pw pd : Option Int) (pe : Option Bool) : CM Unit := do
  let c ← getS
  let priorityPresent := pw.isSome || pd.isSome || pe.isSome
  if priorityPresent then
    if !c.cfg.client then raise (mkExc .RFC1122Error) else liftExcept (checkPriority sid pw pd)
  if !c.cfg.client then getStreamById sid
  else if !hasStream c sid then do
    let maxOpen := c.remoteSettings.maxConcurrentStreams
    let n ← openOutboundStreams
    if n + 1 > maxOpen then raise (mkExc .TooManyStreamsError) else pure ()
  sendHeadersTail c sid headers endStream pw pd pe

def localFlowControlWindow (sid : Int) : CM Int := do
  getStreamById sid
  let c ← getS
  match lookupStream c sid with
  | some st => pure (min c.outWin st.outWin)
  | none => raise (.py .KeyError)

def remoteFlowControlWindow (sid : Int) : CM Int := do
  getStreamById sid
  let c ← getS
  match lookupStream c sid with
  | some st => pure (min c.inWM.current_window_size st.inWM.current_window_size)
  | none => raise (.py .KeyError)

/-- `send_data` after the padding check: `frameSize` is the flow-controlled length. -/
def sendDataCore (sid : Int) (data : Bytes) (endStream : Bool) (pad : Option Int)
    (frameSize : Int) : CM Unit := do
  let w ← localFlowControlWindow sid
  let c ← getS
  if frameSize > w then raise (mkExc .FlowControlError)
  else if frameSize > c.maxOutFrame then raise (mkExc .FrameTooLargeError) else
  connInput .SEND_DATA
  let frames ← withStream sid (Stream.sendData data endStream pad)
  prepareForSending frames
  modifyS fun c => { c with outWin := c.outWin - frameSize }
  let c ← getS
  if c.outWin < 0 then raise (.py .AssertionError) else pure ()

def sendData (sid : Int) (data : Bytes) (endStream : Bool) (pad : Option Int) : CM Unit :=
  match pad with
  | none => sendDataCore sid data endStream none data.length
  | some p =>
    if p < 0 || p > 255 then raise (.py .ValueError)
    else sendDataCore sid data endStream (some p) (data.length + p + 1)

def endStream (sid : Int) : CM Unit := do
  connInput .SEND_DATA
  getStreamById sid
  let frames ← withStream sid Stream.endStream
  prepareForSending frames

def onConnWM (f : WindowManager → WRes) : CM (Option Int) := fun c =>
  match f c.inWM with
  | (.ok v, w) => (.ok v, { c with inWM := w })
  | (.error e, w) => (.error (ofPyErr e), { c with inWM := w })

def incrementFlowControlWindow (incr : Int) (sid : Option Int) : CM Unit := do
  if !(1 ≤ incr && incr ≤ MAX_WINDOW_INCREMENT) then raise (.py .ValueError) else
  connInput .SEND_WINDOW_UPDATE
  let frames ← match sid with
    | some sid => do
      getStreamById sid
      withStream sid (Stream.increaseFlowControlWindow incr)
    | none => do
      let _ ← onConnWM (·.window_opened incr)
      pure [Frame.windowUpdate 0 incr]
  prepareForSending frames

def pushStream (sid promised : Int) (headers : List Header) : CM Unit := do
  let c ← getS
  match c.remoteSettings.enablePush with
  | none => raise (.py .KeyError)
  | some ep =>
  if ep == 0 then raise pErr else
  connInput .SEND_PUSH_PROMISE
  getStreamById sid
  if sid % 2 == 0 then raise pErr else
  beginNewStream promised false
  let frames ← tryCatch (withStreamHp sid (Stream.pushStreamInBand c.cfg promised headers))
    (fun e => e.isInstance .ProtocolError)
    (fun e => do
      -- `del self.streams[promised_stream_id]`
      modifyS (fun c => { c with streams := c.streams.filter fun s => s.1 != promised })
      raise e)
  let newFrames ← withStream promised Stream.locallyPushed
  prepareForSending (frames ++ newFrames)

def ping (data : Bytes) : CM Unit := do
  if data.length != 8 then raise (.py .ValueError) else
  connInput .SEND_PING
  prepareForSending [Frame.ping false data]

def resetStream (sid code : Int) : CM Unit := do
  if !(0 ≤ code && code ≤ 4294967295) then raise (.py .ValueError) else
  connInput .SEND_RST_STREAM
  getStreamById sid
  let frames ← withStream sid (Stream.resetStream code)
  prepareForSending frames

def closeConnection (code : Int) (extra : Option Bytes) (last : Option Int) : CM Unit := do
  if !(0 ≤ code && code ≤ 4294967295) then raise (.py .ValueError) else
  if (match last with | some l => !(0 ≤ l && l ≤ HIGHEST_ALLOWED_STREAM_ID) | none => false) then raise (.py .ValueError) else
  let c ← getS
  -- the GOAWAY frame must fit the peer's MAX_FRAME_SIZE (checked before any state change)
  if 8 + ((extra.getD []).length : Int) > c.maxOutFrame then raise (mkExc .FrameTooLargeError) else
  connInput .SEND_GOAWAY
  let c ← getS
  let last := last.getD c.highestIn
  prepareForSending [Frame.goaway last code (extra.getD [])]

/-- the up-front validation loop of `update_settings`: every identifier and value, in dict order -/
def validateSettingsList : List (Int × Int) → Except Exc Unit
  | [] => .ok ()
  | (k, v) :: rest =>
    match validate_setting k v with
    | .error e => .error (ofPyErr e)
    | .ok code =>
      let code := if code == 0 && !(0 ≤ k && k ≤ 65535 && 0 ≤ v && v ≤ 4294967295) then (ErrorCodes.PROTOCOL_ERROR : Int) else code
      if code != 0 then .error (.h2 .InvalidSettingsValueError (some code) none []) else validateSettingsList rest

def updateSettings (items : List (Int × Int)) : CM Unit := do
  liftExcept (validateSettingsList items)
  let c ← getS
  if 6 * (items.length : Int) > c.maxOutFrame then raise (mkExc .FrameTooLargeError) else
  connInput .SEND_SETTINGS
  let c ← getS
  match Settings.update c.localSettings items with
  | (.error e, s') => do modifyS (fun c => { c with localSettings := s' }); raise e
  | (.ok _, s') => do
    modifyS (fun c => { c with localSettings := s' })
    prepareForSending [Frame.settings false items]

def advertiseAlternativeService (field : Bytes) (origin : Option Bytes) (sid : Option Int) : CM Unit := do
  if origin.isSome && sid.isSome then raise (.py .ValueError) else
  if origin.isNone && sid.isNone then raise (.py .ValueError) else
  let c ← getS
  if c.cfg.client then raise pErr else
  if (match origin with | some o => decide (o.length > 65535) | none => false) then raise (.py .ValueError) else
  if 2 + (((origin.getD []).length + field.length : Nat) : Int) > c.maxOutFrame then raise (mkExc .FrameTooLargeError) else
  connInput .SEND_ALTERNATIVE_SERVICE
  let frames ← match origin, sid with
    | some o, _ => pure [Frame.altsvc 0 o field]
    | none, some sid => do
      getStreamById sid
      withStream sid (Stream.advertiseAltSvc field)
    | none, none => raise (.py .ValueError)
  prepareForSending frames

def prioritize (sid : Int) (w d : Option Int) (e : Option Bool) : CM Unit := do
  let c ← getS
  if !c.cfg.client then raise (mkExc .RFC1122Error) else
  connInput .SEND_PRIORITY
  let p ← liftExcept (framePriority sid w d e)
  prepareForSending [Frame.priority sid p]

/-- the second half of `acknowledge_received_data`: credit the connection window, then the stream's (if it is
    still known and open), and write the WINDOW_UPDATE frames that result -/
def ackCredit (present : Bool) (size sid : Int) : CM Unit := do
  let incr ← onConnWM (·.process_bytes size)
  let frames := match incr with
    | some n => if n != 0 then [Frame.windowUpdate 0 n] else []
    | none => []
  let c ← getS
  let more ← if present then
      match lookupStream c sid with
      | some st => if st.isOpen then withStream sid (Stream.acknowledgeReceivedData size) else pure []
      | none => pure []
    else pure []
  prepareForSending (frames ++ more)

def acknowledgeReceivedData (size sid : Int) : CM Unit := do
  if sid ≤ 0 then raise (.py .ValueError) else
  if size < 0 then raise (.py .ValueError) else
  let present ← tryCatch (do getStreamById sid; pure true)
    (fun e => e.isInstance .StreamClosedError) (fun _ => pure false)
  let c ← getS
  if c.cstate == .CLOSED then pure () else
  ackCredit present size sid

/-- `data_to_send(amount)` with Python slice semantics for any int amount -/
def dataToSend (amount : Option Int) : CM Bytes := do
  let c ← getS
  match amount with
  | none => do modifyS (fun c => { c with out := [] }); pure c.out
  | some n =>
    let k : Nat := if n < 0 then (Int.toNat (c.out.length + n)) else n.toNat
    modifyS (fun c => { c with out := c.out.drop k })
    pure (c.out.take k)

def clearOutboundDataBuffer : CM Unit := modifyS fun c => { c with out := [] }

end Conn
end H2
