#!/bin/sh
# sweep.sh <tier> <seeds...> : (re)build, then run every registered check with each seed; prints one line per run.
# For background use:  vp run -- sh tools/sweep.sh quick 2 3 5 7
cd "$(dirname "$0")/.."
TIER=$1; shift
./setup.sh >/dev/null 2>&1 || { echo "SETUP FAILED"; exit 2; }
for s in "$@"; do
  for p in $(/venv/bin/python -c "import json; print(' '.join(sorted(json.load(open('theorems.json')))))"); do
    o=$(VERIF_SEED=$s ./check $p --tier $TIER 2>&1)
    echo "$o" | grep -E "VIOLATION|-> " | cut -c1-220 | sed "s/^/[seed $s] /"
    echo "$o" | grep -q -- "-> " || echo "[seed $s] $p CRASHED: $(echo "$o" | tail -1 | cut -c1-160)"
  done
done
