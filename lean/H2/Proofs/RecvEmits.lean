/-
  What `receive_data` writes: the frame handlers never write frames themselves, `_receive_frame` writes small
  non-GOAWAY replies, and a failing call ends with exactly one GOAWAY.
-/
import H2.Proofs.RecvTotal
namespace H2
open H2.Gen H2.Conn

/-! ### the frame handlers themselves never write to the output: only `_receive_frame` does -/

/-- the part of the state that only `_prepare_for_sending` / `_terminate_connection` may change -/
def SK (c : Conn) : List Frame × Int := (c.sent, c.highestIn)

section
variable {α : Type} {Q : α → Conn → Prop} {E : Exc → Conn → Prop}

theorem ps_connInput {Q : Unit → Conn → Prop} (i : ConnectionInputs) (c : Conn) (s0 : List Frame) (h : c.sent = s0)
    (hq : ∀ c', c'.sent = s0 → Q () c') (he : ∀ e c', c'.sent = s0 → E e c') : wp (connInput i) Q E c := by
  unfold wp connInput
  cases connTable c.cstate i with
  | none => exact he _ _ h
  | some t => exact hq _ h

theorem ps_withStream (sid : Int) (m : M Stream α) (c : Conn) (s0 : List Frame) (h : c.sent = s0)
    (hq : ∀ a c', c'.sent = s0 → Q a c') (he : ∀ e c', c'.sent = s0 → E e c') : wp (withStream sid m) Q E c := by
  rw [wp_withStream]
  cases c.streams.lookup sid with
  | none => exact he _ _ h
  | some st => exact wp_havoc (fun a s' => hq a _ h) (fun e s' => he e _ h)

theorem ps_getStreamById {Q : Unit → Conn → Prop} (sid : Int) (c : Conn) (s0 : List Frame) (h : c.sent = s0)
    (hq : ∀ c', c'.sent = s0 → Q () c') (he : ∀ e c', c'.sent = s0 → E e c') : wp (getStreamById sid) Q E c := by
  rw [wp_getStreamById_eq]
  repeat' split
  all_goals first | exact hq c h | exact he _ c h

theorem ps_openStreams {Q : Int → Conn → Prop} (r : Int) (c : Conn) (s0 : List Frame) (h : c.sent = s0)
    (hq : ∀ a c', c'.sent = s0 → Q a c') : wp (openStreams r) Q E c := by
  simp only [wp, openStreams]; exact hq _ _ h

theorem ps_onConnWM {Q : Option Int → Conn → Prop} (f : WindowManager → WRes) (c : Conn) (s0 : List Frame) (h : c.sent = s0)
    (hq : ∀ a c', c'.sent = s0 → Q a c') (he : ∀ e c', c'.sent = s0 → E e c') : wp (onConnWM f) Q E c := by
  rw [wp_onConnWM]
  cases f c.inWM with
  | mk r w => cases r <;> first | exact hq _ _ h | exact he _ _ h

theorem ps_decodeHeaders {Q : List Header → Conn → Prop} (b : Bytes) (c : Conn) (s0 : List Frame) (h : c.sent = s0)
    (hq : ∀ a c', c'.sent = s0 → Q a c') (he : ∀ e c', c'.sent = s0 → E e c') : wp (decodeHeaders b) Q E c := by
  unfold decodeHeaders
  wps
  apply wp_havoc
  · intro r hp'
    cases r <;> wps <;> first | exact hq _ _ h | exact he _ _ h
  · intro e hp'; exact he _ _ h

theorem ps_fcc {Q : Unit → Conn → Prop} (o n : Int) (c : Conn) (s0 : List Frame) (h : c.sent = s0)
    (hq : ∀ c', c'.sent = s0 → Q () c') (he : ∀ e c', c'.sent = s0 → E e c') :
    wp (flowControlChangeFromSettings o n) Q E c := by
  unfold wp flowControlChangeFromSettings
  simp only
  cases flowControlChangeFromSettings.go (n - o) [] c.streams with
  | mk r ss => cases r <;> first | exact hq _ h | exact he _ _ h

theorem ps_ifcc {Q : Unit → Conn → Prop} (o n : Int) (c : Conn) (s0 : List Frame) (h : c.sent = s0)
    (hq : ∀ c', c'.sent = s0 → Q () c') (he : ∀ e c', c'.sent = s0 → E e c') :
    wp (inboundFlowControlChangeFromSettings o n) Q E c := by
  unfold wp inboundFlowControlChangeFromSettings
  simp only
  cases inboundFlowControlChangeFromSettings.go (n - o) [] c.streams with
  | mk r ss => cases r <;> first | exact hq _ h | exact he _ _ h

theorem ps_putStream {Q : Unit → Conn → Prop} (sid : Int) (st : Stream) (c : Conn) (s0 : List Frame) (h : c.sent = s0)
    (hq : ∀ c', c'.sent = s0 → Q () c') : wp (putStream sid st) Q E c := by
  rw [wp_putStream]
  apply hq
  unfold putStream modifyS; simp only
  split <;> exact h

end

theorem localOtherChanges_sent (ch : List (Int × Option Int × Int)) (c : Conn) : (localOtherChanges ch c).sent = c.sent := by
  unfold localOtherChanges; repeat' split
  all_goals rfl
theorem remoteOtherChanges_sent (ch : List (Int × Option Int × Int)) (c : Conn) : (remoteOtherChanges ch c).sent = c.sent := by
  unfold remoteOtherChanges; repeat' split
  all_goals rfl

/-- close goals of the form `… .sent = s0` / continue through a method that never writes frames -/
macro "ps_auto" : tactic => `(tactic|
  repeat' (first
    | assumption
    | (rw [localOtherChanges_sent]; assumption)
    | (rw [remoteOtherChanges_sent]; assumption)
    | (apply ps_connInput _ _ _ (by assumption))
    | (apply ps_withStream _ _ _ _ (by assumption))
    | (apply ps_getStreamById _ _ _ (by assumption))
    | (apply ps_openStreams _ _ _ (by assumption))
    | (apply ps_onConnWM _ _ _ (by assumption))
    | (apply ps_decodeHeaders _ _ _ (by assumption))
    | (apply ps_fcc _ _ _ _ (by assumption))
    | (apply ps_ifcc _ _ _ _ (by assumption))
    | (apply ps_putStream _ _ _ _ (by assumption))
    | (intro _)
    | wps
    | split))

abbrev PS (m : CM α) (c : Conn) : Prop := wp m (fun _ c' => c'.sent = c.sent) (fun _ c' => c'.sent = c.sent) c

theorem ps_ping (a : Bool) (p : Bytes) (c : Conn) : PS (receivePingFrame a p) c := by
  have h : c.sent = c.sent := rfl
  unfold PS receivePingFrame; ps_auto
theorem ps_priority (sid : Int) (p : Prio) (c : Conn) : PS (receivePriorityFrame sid p) c := by
  have h : c.sent = c.sent := rfl
  unfold PS receivePriorityFrame; ps_auto


theorem ps_goaway (l k : Int) (x : Bytes) (c : Conn) : PS (receiveGoawayFrame l k x) c := by
  have h : c.sent = c.sent := rfl
  unfold PS receiveGoawayFrame clearOutboundDataBuffer; ps_auto
theorem ps_windowUpdate (sid incr : Int) (c : Conn) : PS (receiveWindowUpdateFrame sid incr) c := by
  have h : c.sent = c.sent := rfl
  unfold PS receiveWindowUpdateFrame; ps_auto
theorem ps_rst (sid code : Int) (c : Conn) : PS (receiveRstStreamFrame sid code) c := by
  have h : c.sent = c.sent := rfl
  unfold PS receiveRstStreamFrame; ps_auto
theorem ps_altsvc (sid : Int) (o f : Bytes) (c : Conn) : PS (receiveAltSvcFrame sid o f) c := by
  have h : c.sent = c.sent := rfl
  unfold PS receiveAltSvcFrame; ps_auto
theorem ps_cont (sid : Int) (c : Conn) : PS (receiveNakedContinuation sid) c := by
  have h : c.sent = c.sent := rfl
  unfold PS receiveNakedContinuation; ps_auto
theorem ps_data (sid : Int) (p : Bytes) (es : Bool) (fcl : Int) (c : Conn) : PS (receiveDataFrame sid p es fcl) c := by
  have h : c.sent = c.sent := rfl
  unfold PS receiveDataFrame; ps_auto
theorem ps_settings (ack : Bool) (items : List (Int × Int)) (c : Conn) : PS (receiveSettingsFrame ack items) c := by
  have h : c.sent = c.sent := rfl
  unfold PS receiveSettingsFrame localSettingsAcked acknowledgeSettings localWindowChange remoteWindowChange
  ps_auto


theorem ps_use {α : Type} {Q : α → Conn → Prop} {E : Exc → Conn → Prop} {m : CM α} (hm : ∀ c, PS m c) (c : Conn)
    (s0 : List Frame) (h : c.sent = s0) (hq : ∀ a c', c'.sent = s0 → Q a c') (he : ∀ e c', c'.sent = s0 → E e c') :
    wp m Q E c :=
  wp_mono (hm c) (fun a c' h' => hq a c' (h'.trans h)) (fun e c' h' => he e c' (h'.trans h))

theorem ps_createStream (sid : Int) (ob : Bool) (c : Conn) : PS (createStream sid ob) c := by
  have h : c.sent = c.sent := rfl
  unfold PS createStream optInt?
  ps_auto

theorem ps_beginNewStream (sid : Int) (odd : Bool) (c : Conn) : PS (beginNewStream sid odd) c := by
  have h : c.sent = c.sent := rfl
  unfold PS beginNewStream
  repeat' (first | assumption | (apply ps_use (ps_createStream _ _) _ _ (by assumption)) | (intro _) | wps | split)

theorem ps_getOrCreateStream (sid : Int) (odd : Bool) (c : Conn) : PS (getOrCreateStream sid odd) c := by
  have h : c.sent = c.sent := rfl
  unfold PS getOrCreateStream
  repeat' (first | assumption | (apply ps_use (ps_beginNewStream _ _) _ _ (by assumption)) | (intro _) | wps | split)

theorem ps_refuse (p : Int) (c : Conn) : PS (refusePushedStream p) c := by
  have h : c.sent = c.sent := rfl
  unfold PS refusePushedStream; ps_auto

macro "ps_auto2" : tactic => `(tactic|
  repeat' (first
    | assumption
    | (apply ps_use (ps_getOrCreateStream _ _) _ _ (by assumption))
    | (apply ps_use (ps_beginNewStream _ _) _ _ (by assumption))
    | (apply ps_use (ps_priority _ _) _ _ (by assumption))
    | (apply ps_use (ps_refuse _) _ _ (by assumption))
    | (apply ps_connInput _ _ _ (by assumption))
    | (apply ps_withStream _ _ _ _ (by assumption))
    | (apply ps_getStreamById _ _ _ (by assumption))
    | (apply ps_openStreams _ _ _ (by assumption))
    | (apply ps_decodeHeaders _ _ _ (by assumption))
    | (intro _)
    | wps
    | split))

theorem ps_headersRest (sid : Int) (b : Bytes) (es : Bool) (pr : Option Prio) (c : Conn) : PS (receiveHeadersRest sid b es pr) c := by
  have h : c.sent = c.sent := rfl
  unfold PS receiveHeadersRest
  ps_auto2

theorem ps_headers (sid : Int) (b : Bytes) (es : Bool) (pr : Option Prio) (c : Conn) : PS (receiveHeadersFrame sid b es pr) c := by
  have h : c.sent = c.sent := rfl
  unfold PS receiveHeadersFrame openInboundStreams
  repeat' (first
    | assumption
    | (apply ps_use (ps_headersRest _ _ _ _) _ _ (by assumption))
    | (apply ps_openStreams _ _ _ (by assumption))
    | (intro _)
    | wps
    | split)

theorem ps_pushKnown (sid p : Int) (hs : List Header) (c : Conn) : PS (receivePushPromiseKnown sid p hs) c := by
  have h : c.sent = c.sent := rfl
  unfold PS receivePushPromiseKnown openInboundStreams
  ps_auto2

theorem ps_pushUnknown (sid p : Int) (c : Conn) : PS (receivePushPromiseUnknown sid p) c := by
  have h : c.sent = c.sent := rfl
  unfold PS receivePushPromiseUnknown
  ps_auto2

theorem ps_push (sid p : Int) (b : Bytes) (c : Conn) : PS (receivePushPromiseFrame sid p b) c := by
  have h : c.sent = c.sent := rfl
  unfold PS receivePushPromiseFrame
  repeat' (first
    | assumption
    | (apply ps_use (ps_pushKnown _ _ _) _ _ (by assumption))
    | (apply ps_use (ps_pushUnknown _ _) _ _ (by assumption))
    | (apply ps_connInput _ _ _ (by assumption))
    | (apply ps_getStreamById _ _ _ (by assumption))
    | (apply ps_decodeHeaders _ _ _ (by assumption))
    | (intro _)
    | wps
    | split)

/-- no frame handler writes a frame: they hand their frames to `_receive_frame` -/
theorem ps_dispatch (rf : RFrame) (c : Conn) : PS (dispatch rf) c := by
  unfold dispatch
  split
  · exact ps_headers _ _ _ _ c
  · exact ps_push _ _ _ c
  · exact ps_settings _ _ c
  · exact ps_data _ _ _ _ c
  · exact ps_windowUpdate _ _ c
  · exact ps_ping _ _ c
  · exact ps_rst _ _ c
  · exact ps_priority _ _ c
  · exact ps_goaway _ _ _ c
  · exact ps_cont _ c
  · exact ps_altsvc _ _ _ c
  · unfold PS; wps


/-! ### what `receive_data` writes -/

/-- from `c` to `c'` only small non-GOAWAY frames (SETTINGS ACK, PING ACK, RST_STREAM, WINDOW_UPDATE) were written -/
def Emitted (c c' : Conn) : Prop := ∃ fs, c'.sent = c.sent ++ fs ∧ FramesOk fs

theorem Emitted.refl (c : Conn) : Emitted c c := ⟨[], by simp, framesOk_nil⟩
theorem Emitted.trans {a b c : Conn} (h1 : Emitted a b) (h2 : Emitted b c) : Emitted a c := by
  obtain ⟨f1, e1, o1⟩ := h1
  obtain ⟨f2, e2, o2⟩ := h2
  exact ⟨f1 ++ f2, by rw [e2, e1, List.append_assoc], framesOk_append o1 o2⟩
theorem Emitted.of_eq {a b : Conn} (h : b.sent = a.sent) : Emitted a b := ⟨[], by simp [h], framesOk_nil⟩

set_option maxRecDepth 4000 in
theorem em_frameErrorHandler (e : Exc) (c : Conn) (hwf : WF c) (hg : GoodExc e) :
    wp (frameErrorHandler e) (fun _ c' => Emitted c c') (fun _ c' => Emitted c c') c := by
  unfold frameErrorHandler
  cases e with
  | py k => exact hg.elim
  | h2 cls code esid evs =>
    simp only
    have hcode := goodExc_code hg
    split
    · wps
      split
      · apply wp_connInput_live _ _ hwf (by unfold notGoaway; decide)
        · intro t hl
          wps
          apply wp_prepareForSending _ _ hl.1.mof (framesOk_one (f := Frame.rstStream (esid.getD 0) (code.getD 0)) hcode)
          intro o; wps; exact ⟨_, rfl, framesOk_one hcode⟩
        · intro h; exact Emitted.refl _
      · exact Emitted.refl _
    · wps
      split
      · apply wp_connInput_live _ _ hwf (by unfold notGoaway; decide)
        · intro t hl
          wps
          refine wp_prepareForSending _ _ hl.1.mof (framesOk_one (smallFrame_rst_closed _)) ?_
          intro o; wps; exact ⟨_, rfl, framesOk_one (smallFrame_rst_closed _)⟩
        · intro h; exact Emitted.refl _
      · split
        · exact Emitted.refl _
        · exact Emitted.refl _

theorem em_receiveFrame (rf : RFrame) (c : Conn) (hwf : WF c) (hrf : RFrameOk rf) :
    wp (receiveFrame rf) (fun _ c' => Emitted c c') (fun _ c' => Emitted c c') c := by
  unfold receiveFrame
  wps
  refine wp_mono (wp_and (hspec_dispatch rf c hwf hrf) (ps_dispatch rf c)) ?_ ?_
  · intro fe c' h
    obtain ⟨frames, events⟩ := fe
    wps
    apply wp_prepareForSending _ _ h.1.1.1.mof h.1.2
    intro o; wps
    exact ⟨frames, by simp [h.2], h.1.2⟩
  · intro e c' h
    split
    · rename_i hc
      have hwf' := h.1.2.2 (caught_of_pred hc)
      try wps
      refine wp_mono (em_frameErrorHandler e c' hwf' h.1.1) ?_ ?_
      · intro evs c2 h2; wps; exact (Emitted.of_eq h.2).trans h2
      · intro e2 c2 h2; exact (Emitted.of_eq h.2).trans h2
    · exact Emitted.of_eq h.2


theorem recvLoop_em (fuel : Nat) (evs : List Event) (c : Conn) (hwf : WF c) (hh : HbOk c.fb.headersBuffer) :
    Emitted c (recvLoop fuel evs c).2 := by
  induction fuel generalizing evs c with
  | zero => exact Emitted.refl _
  | succ n ih =>
    rw [recvLoop_succ]
    have hn := next_ok (c.fb.data.length + 1) c.fb hh
    cases hnx : FrameBuffer.next (c.fb.data.length + 1) c.fb with
    | mk r fb =>
      rw [hnx] at hn
      cases r with
      | error e => exact Emitted.of_eq rfl
      | ok o =>
        cases o with
        | none => exact Emitted.of_eq rfl
        | some rf =>
          simp only
          have hrf := hn.1 rf fb rfl
          have hspec := hspec_receiveFrame rf { c with fb := {} } (wf_setFb hwf {}) hrf
          have hem := em_receiveFrame rf { c with fb := {} } (wf_setFb hwf {}) hrf
          unfold wp at hspec hem
          unfold hideFb
          simp only
          cases hm : receiveFrame rf { c with fb := {} } with
          | mk r2 c2 =>
            rw [hm] at hspec hem
            cases r2 with
            | error e => exact hem
            | ok es =>
              simp only at hspec hem ⊢
              have := ih (evs ++ es) { c2 with fb := { fb with maxFrameSize := c2.maxInFrame } } (wf_setFb hspec _) hn.2.2
              exact Emitted.trans hem this

/-- **what a failing `receive_data` writes**: the replies to the frames before the offending one (none of them a
    GOAWAY), then exactly one GOAWAY carrying the exception's error code and the highest stream id the peer has
    opened; the connection is closed.  (The only error without GOAWAY is the invalid client preface, raised before
    anything is processed.) -/
theorem receiveData_error (d : Bytes) (c : Conn) (hwf : WF c) (hh : HbOk c.fb.headersBuffer) (e : Exc) (c' : Conn)
    (hr : receiveData d c = (.error e, c')) :
    (FrameBuffer.addData c.fb d = .error e ∧ c' = c) ∨
    (∃ fs k cls sid evs, FramesOk fs ∧ c'.sent = c.sent ++ fs ++ [Frame.goaway c'.highestIn k []] ∧
      e = .h2 cls (some k) sid evs ∧ cls.isSub .ProtocolError = true ∧ 0 ≤ k ∧ k < 4294967296 ∧
      c'.cstate = .CLOSED ∧
      ∃ pre b, (Frame.goaway c'.highestIn k []).serialize? = some b ∧ c'.out = pre ++ b) := by
  rw [receiveData_eq] at hr
  cases ha : FrameBuffer.addData c.fb d with
  | error e0 =>
    rw [ha] at hr
    simp only at hr
    injection hr with h1 h2
    injection h1 with h1
    subst h1 h2
    exact Or.inl ⟨rfl, rfl⟩
  | ok fb =>
    right
    rw [ha] at hr
    simp only at hr
    have hhb : fb.headersBuffer = c.fb.headersBuffer := by
      rw [FrameBuffer.addData_eq] at ha
      split at ha
      · injection ha with ha; subst ha; rfl
      · split at ha
        · injection ha with ha; subst ha; rfl
        · simp at ha
    have hhb' : HbOk (startRecv c fb).fb.headersBuffer := by show HbOk fb.headersBuffer; rw [hhb]; exact hh
    have hl := recvLoop_ok ((startRecv c fb).fb.data.length + 1) [] (startRecv c fb) (wf_setFb hwf _) hhb'
    have hem := recvLoop_em ((startRecv c fb).fb.data.length + 1) [] (startRecv c fb) (wf_setFb hwf _) hhb'
    cases hrl : recvLoop ((startRecv c fb).fb.data.length + 1) [] (startRecv c fb) with
    | mk r c1 =>
      rw [hrl] at hl hem hr
      cases r with
      | ok evs => simp [finishRecv] at hr
      | error e1 =>
        simp only [finishRecv] at hr
        obtain ⟨fs, hfs, hok⟩ := hem
        have hfs' : c1.sent = c.sent ++ fs := hfs
        -- the error path: one GOAWAY with the code of the exception that is re-raised
        have key : ∀ (k : Int) (eout : Exc), 0 ≤ k ∧ k < 4294967296 →
            wp (do terminateConnection k; (raise eout : CM (List Event)))
              (fun _ _ => False)
              (fun e2 c2 => e2 = eout ∧ c2.sent = c1.sent ++ [Frame.goaway c2.highestIn k []] ∧ c2.cstate = .CLOSED ∧
                ∃ pre b, (Frame.goaway c2.highestIn k []).serialize? = some b ∧ c2.out = pre ++ b)
              { c1 with fb := {} } := by
          intro k eout hk
          wps
          unfold terminateConnection
          wps
          rw [wp_connInput_ok _ _ _ (conn_goaway_closes _)]
          obtain ⟨b, hb, hlen⟩ := goaway_serialize c1.highestIn k [] hk
          have hmof : (16384 : Int) ≤ c1.maxOutFrame := hl.2.1.mof
          rw [wp_prepare_eq [Frame.goaway c1.highestIn k []] _ [b] (by simp) (by simp [hb])
            (by simp only [List.all_cons, List.all_nil, Bool.and_true, hlen, decide_eq_true_eq]; simp; omega)]
          wps
          exact ⟨trivial, trivial, trivial, c1.out, b, hb, by simp⟩
        have hne := hl.1
        unfold hideFb at hr
        rcases hne with hg | hpad
        · cases e1 with
          | py kk => exact hg.elim
          | h2 cls code sid evs =>
            obtain ⟨hsub, k, hk, h0, h1⟩ := hg
            subst hk
            have hk' := key k (.h2 cls (some k) sid evs) ⟨h0, h1⟩
            have hform : handleRecvError (.h2 cls (some k) sid evs) =
                (do terminateConnection k; (raise (.h2 cls (some k) sid evs) : CM (List Event))) := by
              unfold handleRecvError; simp [hsub]
            rw [hform] at hr
            unfold wp at hk'
            cases hm : (do terminateConnection k; (raise (.h2 cls (some k) sid evs) : CM (List Event))) { c1 with fb := {} } with
            | mk r2 c2 =>
              rw [hm] at hk' hr
              cases r2 with
              | ok u => exact hk'.elim
              | error e2 =>
                simp only at hk' hr
                injection hr with hr1 hr2
                injection hr1 with hr1
                subst hr1 hr2
                obtain ⟨he2, hs2, hc2, pre, b, hb, hout⟩ := hk'
                subst he2
                exact ⟨fs, k, cls, sid, evs, hok, by simp only; rw [hs2, hfs', List.append_assoc], rfl, hsub, h0, h1, hc2,
                  pre, b, hb, hout⟩
        · subst hpad
          have hk' := key ErrorCodes.PROTOCOL_ERROR pErr ⟨by decide, by decide⟩
          have hform : handleRecvError (.py (.Other "InvalidPaddingError")) =
              (do terminateConnection ErrorCodes.PROTOCOL_ERROR; (raise pErr : CM (List Event))) := by
            unfold handleRecvError; rfl
          rw [hform] at hr
          unfold wp at hk'
          cases hm : (do terminateConnection ErrorCodes.PROTOCOL_ERROR; (raise pErr : CM (List Event))) { c1 with fb := {} } with
          | mk r2 c2 =>
            rw [hm] at hk' hr
            cases r2 with
            | ok u => exact hk'.elim
            | error e2 =>
              simp only at hk' hr
              injection hr with hr1 hr2
              injection hr1 with hr1
              subst hr1 hr2
              obtain ⟨he2, hs2, hc2, pre, b, hb, hout⟩ := hk'
              subst he2
              exact ⟨fs, ErrorCodes.PROTOCOL_ERROR, .ProtocolError, none, [], hok,
                by simp only; rw [hs2, hfs', List.append_assoc], rfl, by decide, by decide, by decide, hc2, pre, b, hb, hout⟩

end H2
