/-
  C04 — inbound flow control is enforced exactly at the advertised windows.

  `WindowManager` is regenerated from windows.py on every run (the theorems below are re-checked against the
  current source); the connection-level methods are the hand model.
-/
import H2.Proofs.PairCredit
-- the credit equation of one window between two endpoints, everything in flight (arithmetic of windows.py + C03/C04/C11)
-- @also H2.PairCredit.data_never_overruns
import H2.Proofs.StreamLemmas
import H2.Proofs.Send
import H2.Proofs.ApiOk

namespace H2.C04
open H2 H2.Gen H2.Conn

/-- **enforcement (generated code)**: a DATA frame of flow-controlled length `n` is refused with FlowControlError
    exactly when it overruns the advertised window; one that fits is never refused.  A frame of length zero overruns
    nothing, also when a lowered INITIAL_WINDOW_SIZE has the window below zero (RFC 7540 §6.9.1, §6.9.2; before the
    repair D43 the empty DATA frame that ends a stream was refused there) -/
theorem C04_consumed (w : WindowManager) (n : Int) :
    (w.window_consumed n).1 = (if 0 < n ∧ w.current_window_size - n < 0 then .error (.h2 .FlowControlError) else .ok none) ∧
    (w.window_consumed n).2 = { w with current_window_size := w.current_window_size - n } := by
  unfold WindowManager.window_consumed
  simp only [decide_eq_true_eq, Bool.and_eq_true, gt_iff_lt]
  split <;> simp_all

/-- an empty frame is never refused for flow-control reasons, whatever the window -/
theorem C04_empty_frame_fits (w : WindowManager) : (w.window_consumed 0).1 = .ok none := by
  rw [(C04_consumed w 0).1]; simp

/-- FlowControlError carries FLOW_CONTROL_ERROR -/
theorem C04_code : ExcClass.FlowControlError.classCode = some 3 := by decide

/-- **atomicity (generated code)**: a refused window increment changes nothing; an accepted one adds exactly the
    increment (raising the maximum when the window outgrows it) -/
theorem C04_opened (w : WindowManager) (n : Int) :
    (w.current_window_size + n > 2147483647 → w.window_opened n = (.error (.h2 .FlowControlError), w)) ∧
    (w.current_window_size + n ≤ 2147483647 →
      (w.window_opened n).1 = .ok none ∧ (w.window_opened n).2.current_window_size = w.current_window_size + n ∧
      (w.window_opened n).2.bytes_processed = w.bytes_processed) := by
  unfold WindowManager.window_opened
  simp only [decide_eq_true_eq]
  constructor
  · intro h; simp [h]
  · intro h
    have : ¬ (w.current_window_size + n > 2147483647) := by omega
    simp only [this, if_false]
    split <;> simp

/-- **what is emitted is what is added**: the increment `process_bytes` returns (it becomes the WINDOW_UPDATE) is
    exactly the amount by which the advertised window grows -/
theorem C04_process_bytes (w : WindowManager) (n : Int) :
    match w.process_bytes n with
    | (.ok (some v), w') => w'.current_window_size = w.current_window_size + v ∧ w'.max_window_size = w.max_window_size
    | (.ok none, w') => w'.current_window_size = w.current_window_size ∧ w'.max_window_size = w.max_window_size
    | (.error _, _) => False := by
  unfold WindowManager.process_bytes WindowManager.maybe_update_window
  grind

/-- **query**: `remote_flow_control_window` reports the smaller of the connection's and the stream's advertised window
    and changes nothing -/
theorem C04_query (c : Conn) (sid : Int) (st : Stream) (h : c.streams.lookup sid = some st) :
    wp (remoteFlowControlWindow sid)
      (fun v c' => v = min c.inWM.current_window_size st.inWM.current_window_size ∧ c' = c) (fun _ _ => False) c := by
  simp only [remoteFlowControlWindow]
  wps
  rw [wp_getStreamById_eq]
  have hs : hasStream c sid = true := by rw [hasStream_lookup, h]; rfl
  simp only [hs, if_true, lookupStream]
  wps
  simp only [h]
  wps
  simp

/-- **a window-changing call that raises changes no window** (connection-level increment): whatever goes wrong in
    `increment_flow_control_window(n)`, the advertised connection window and every stream are as before -/
theorem C04_increment_conn_atomic (c : Conn) (n : Int) (hmax : 4 ≤ c.maxOutFrame) :
    wp (incrementFlowControlWindow n none)
      (fun _ c' => c'.inWM.current_window_size = c.inWM.current_window_size + n ∧ c'.streams = c.streams ∧
          c'.sent = c.sent ++ [Frame.windowUpdate 0 n] ∧ c'.outWin = c.outWin)
      (fun _ c' => c'.inWM = c.inWM ∧ c'.streams = c.streams ∧ c'.out = c.out ∧ c'.sent = c.sent ∧ c'.outWin = c.outWin) c := by
  obtain ⟨b, hb, hl⟩ := wu_serialize 0 n
  simp only [incrementFlowControlWindow]
  wps
  have hM : MAX_WINDOW_INCREMENT = 2147483647 := rfl
  by_cases hr : (!(decide (1 ≤ n) && decide (n ≤ MAX_WINDOW_INCREMENT))) = true
  · rw [if_pos hr]; exact ⟨trivial, trivial, trivial, trivial, trivial⟩
  · rw [if_neg hr]
    have hn : 1 ≤ n ∧ n ≤ 2147483647 := by rw [← hM]; simpa using hr
    cases htab : connTable c.cstate .SEND_WINDOW_UPDATE with
    | none => rw [wp_connInput_err _ _ htab]; first | exact ⟨rfl, rfl, rfl, rfl, rfl⟩ | simp
    | some t =>
      rw [wp_connInput_ok _ _ _ htab]
      wps
      rw [wp_onConnWM]
      by_cases hov : c.inWM.current_window_size + n > 2147483647
      · simp only [(C04_opened c.inWM n).1 hov]
        first | exact ⟨rfl, rfl, rfl, rfl, rfl⟩ | simp
      · have hle : c.inWM.current_window_size + n ≤ 2147483647 := by omega
        obtain ⟨h1, h2, _⟩ := (C04_opened c.inWM n).2 hle
        cases hw : c.inWM.window_opened n with
        | mk r w' =>
          simp only [hw] at h1 h2
          subst h1
          simp only
          wps
          rw [wp_prepare_eq [Frame.windowUpdate 0 n] _ [b] (by simp) (by simp [hb])
            (by simp only [List.all_cons, List.all_nil, Bool.and_true, hl, decide_eq_true_eq]; exact hmax)]
          exact ⟨h2, rfl, rfl, rfl⟩

/-- `acknowledge_received_data` for a stream id that was never used raises NoSuchStreamError and changes nothing -/
theorem C04_ack_unknown_atomic (c : Conn) (size sid : Int) (hno : hasStream c sid = false)
    (hhi : sid > (if streamIdIsOutbound c sid then c.highestOut else c.highestIn)) :
    wp (acknowledgeReceivedData size sid) (fun _ c' => c' = c) (fun _ c' => c' = c) c := by
  simp only [acknowledgeReceivedData]
  wps
  rw [wp_getStreamById_eq]
  simp only [hno, Bool.false_eq_true, if_false, hhi, if_true]
  repeat' (first | rfl | split)
  all_goals simp_all [Exc.isInstance, ExcClass.isSub, ExcClass.isSub.go, ExcClass.parent]

/-- non-vacuity: the boundary on the generated code -/
example : ({ max_window_size := 65535, current_window_size := 100, bytes_processed := 0 } : WindowManager).window_consumed 100
      = (.ok none, { max_window_size := 65535, current_window_size := 0, bytes_processed := 0 }) ∧
    (({ max_window_size := 65535, current_window_size := 100, bytes_processed := 0 } : WindowManager).window_consumed 101).1
      = .error (.h2 .FlowControlError) := by
  constructor <;> rfl

/-! ### the ledger: what each window-related operation does to the connection-level windows and to what is written -/

/-- total flow-controlled length of the DATA frames in a list -/
def dataFcl : List Frame → Int
  | [] => 0
  | .data _ p _ pad :: fs => (p.length : Int) + (match pad with | some q => q + 1 | none => 0) + dataFcl fs
  | _ :: fs => dataFcl fs
/-- total of the connection-level WINDOW_UPDATE increments in a list -/
def wu0 : List Frame → Int
  | [] => 0
  | .windowUpdate sid n :: fs => (if sid = 0 then n else 0) + wu0 fs
  | _ :: fs => wu0 fs

theorem wu0_append (a b : List Frame) : wu0 (a ++ b) = wu0 a + wu0 b := by
  induction a with
  | nil => simp [wu0]
  | cons f t ih => cases f <;> simp [wu0, ih] <;> omega
theorem dataFcl_append (a b : List Frame) : dataFcl (a ++ b) = dataFcl a + dataFcl b := by
  induction a with
  | nil => simp [dataFcl]
  | cons f t ih => cases f <;> simp [dataFcl, ih] <;> omega

/-- `H2Stream.receive_data` returns no frames -/
theorem stream_receiveData_no_frames (data : Bytes) (es : Bool) (fcl : Int) (st : Stream) :
    wp (Stream.receiveData data es fcl) (fun fe _ => fe.1 = []) (fun _ _ => True) st := by
  unfold Stream.receiveData
  wps
  apply wp_havoc
  · intro evs s1
    wps
    apply wp_havoc
    · intro _ s2
      wps
      apply wp_havoc
      · intro _ s3
        wps
        cases es with
        | false =>
          simp only [Bool.false_eq_true, if_false]
          try wps
          cases evs with
          | nil => trivial
          | cons e t =>
            simp only [Bool.false_and, Bool.false_eq_true, if_false]
            try wps
        | true =>
          simp only [if_true]
          apply wp_havoc
          · intro es2 s4
            cases evs with
            | nil => trivial
            | cons e t =>
              simp only
              split
              · trivial
              · wps
          · intro _ _; trivial
      · intro _ _; trivial
    · intro _ _; trivial
  · intro _ _; trivial

/-- **what a received DATA frame does to the ledger**, any state, any frame: the handler writes nothing itself and
    leaves the outbound window alone; if it returns, the connection's inbound window went down by the frame's
    flow-controlled length and up by exactly the connection-level WINDOW_UPDATE increments among the frames it hands back
    (none on a live stream; on a closed stream the bytes are handed straight back, `process_bytes`), and it hands back
    no DATA -/
theorem C04_recv_data_ledger (c : Conn) (sid : Int) (payload : Bytes) (es : Bool) (fcl : Int) :
    wp (receiveDataFrame sid payload es fcl)
      (fun fe c' => c'.outWin = c.outWin ∧ c'.sent = c.sent ∧
          c'.inWM.current_window_size = c.inWM.current_window_size - fcl + wu0 fe.1 ∧ dataFcl fe.1 = 0)
      (fun _ c' => c'.outWin = c.outWin ∧ c'.sent = c.sent) c := by
  unfold receiveDataFrame
  wps
  cases ht : connTable c.cstate .RECV_DATA with
  | none => rw [wp_connInput_err _ _ ht]; exact ⟨rfl, rfl⟩
  | some t =>
    rw [wp_connInput_ok _ _ _ ht]
    wps
    rw [wp_onConnWM]
    have hcons := (C04_consumed c.inWM fcl).2
    cases hw : c.inWM.window_consumed fcl with
    | mk r w =>
      rw [hw] at hcons
      simp only at hcons
      cases r with
      | error e => exact ⟨rfl, rfl⟩
      | ok v =>
        simp only
        wps
        rw [wp_getStreamById_eq]
        -- the closed-stream handler
        have closed : ∀ (cls : ExcClass) (code : Option Int) (esid : Option Int) (evs : List Event) (c2 : Conn),
            c2.outWin = c.outWin → c2.sent = c.sent → c2.inWM = w →
            wp (do
              let incr ← onConnWM (·.process_bytes fcl)
              let frames := match incr with
                | some n => if n != 0 then [Frame.windowUpdate 0 n] else []
                | none => []
              match (Exc.h2 cls code esid evs) with
              | .h2 _ code esid evs => pure (frames ++ [Frame.rstStream (esid.getD 0) (code.getD 0)], evs)
              | _ => pure (frames, []))
              (fun fe c' => c'.outWin = c.outWin ∧ c'.sent = c.sent ∧
                c'.inWM.current_window_size = c.inWM.current_window_size - fcl + wu0 fe.1 ∧ dataFcl fe.1 = 0)
              (fun _ c' => c'.outWin = c.outWin ∧ c'.sent = c.sent) c2 := by
          intro cls code esid evs c2 h1 h2 h3
          wps
          rw [wp_onConnWM, h3]
          have hpb := C04_process_bytes w fcl
          cases hp : w.process_bytes fcl with
          | mk r2 w2 =>
            rw [hp] at hpb
            cases r2 with
            | error e => exact hpb.elim
            | ok v2 =>
              simp only at hpb ⊢
              wps
              refine ⟨h1, h2, ?_, ?_⟩
              · cases v2 with
                | none =>
                  simp only at hpb
                  show w2.current_window_size = _
                  rw [hpb.1, hcons]; simp [wu0]
                | some n =>
                  simp only at hpb
                  show w2.current_window_size = _
                  rw [hpb.1, hcons]
                  by_cases hn : n = 0
                  · subst hn; simp [wu0]
                  · have : (n != 0) = true := by simpa using hn
                    simp [this, wu0]
              · cases v2 with
                | none => simp [dataFcl]
                | some n => by_cases hn : (n != 0) = true <;> simp [hn, dataFcl]
        by_cases hex : hasStream { c with cstate := t, inWM := w } sid = true
        · rw [if_pos hex]
          rw [wp_withStream]
          cases hl : ({ c with cstate := t, inWM := w } : Conn).streams.lookup sid with
          | none => simp only; first | exact ⟨rfl, rfl⟩ | exact ⟨trivial, trivial⟩
          | some st =>
            simp only
            refine wp_mono (stream_receiveData_no_frames payload es fcl st) ?_ ?_
            · intro fe st' hfe
              refine ⟨rfl, rfl, ?_, ?_⟩
              · show w.current_window_size = _
                rw [hcons, hfe]; simp [wu0]
              · rw [hfe]; rfl
            · intro e st' _
              by_cases hi : e.isInstance .StreamClosedError = true
              · rw [if_pos hi]
                cases e with
                | py k => simp [Exc.isInstance] at hi
                | h2 cls code esid evs =>
                  have hcl := closed cls code esid evs (setStream { c with cstate := t, inWM := w } sid st') rfl rfl rfl
                  simp only [wp_bind, wp_pure, wp_Mpure, wp_raise, wp_getS, wp_modifyS, wp_ite, wp_liftExcept, wp_tryCatch, wp_zoom] at hcl ⊢
                  exact hcl
              · rw [if_neg hi]; exact ⟨rfl, rfl⟩
        · rw [if_neg hex]
          have hi1 : (Exc.h2 ExcClass.NoSuchStreamError (ExcClass.NoSuchStreamError.classCode.map Int.ofNat) (some sid) []).isInstance .StreamClosedError = false := rfl
          have hi2 : (mkStreamClosed sid).isInstance .StreamClosedError = true := rfl
          by_cases hhi : sid > (if streamIdIsOutbound ({ c with cstate := t, inWM := w } : Conn) sid = true
              then ({ c with cstate := t, inWM := w } : Conn).highestOut else ({ c with cstate := t, inWM := w } : Conn).highestIn)
          · rw [if_pos hhi, hi1]; simp only [Bool.false_eq_true, if_false]; first | exact ⟨rfl, rfl⟩ | exact ⟨trivial, trivial⟩
          · rw [if_neg hhi, hi2]; simp only [if_true]
            have hcl := closed .StreamClosedError (some (Int.ofNat streamClosedErrorCode)) (some sid) [] ({ c with cstate := t, inWM := w } : Conn) rfl rfl rfl
            simp only [mkStreamClosed, wp_bind, wp_pure, wp_Mpure, wp_raise, wp_getS, wp_modifyS, wp_ite, wp_liftExcept, wp_tryCatch, wp_zoom] at hcl ⊢
            exact hcl

end H2.C04
