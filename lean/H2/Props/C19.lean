/-
  C19 — a closed connection stays quiet.

  `connTable` is regenerated from H2ConnectionStateMachine._transitions on
  every run; the API methods are the hand-written model (tied by correspondence).
-/
import H2.Proofs.Closed
import H2.Proofs.ClosedSent
import H2.Proofs.ClosedRecv
import H2.Proofs.ClosedForever
import H2.Proofs.History

namespace H2.C19
open H2 H2.Gen H2.Conn

/-- the calls that would emit a frame other than GOAWAY, or open a stream -/
def frameCall : Op → Bool
  | .sendHeaders .. | .sendData .. | .endStream .. | .incrementWindow .. | .pushStream .. | .ping ..
  | .resetStream .. | .updateSettings .. | .altsvc .. | .prioritize .. => true
  | _ => false

/-- the generated connection table: CLOSED admits exactly the two GOAWAY inputs and is absorbing -/
theorem C19_table_closed (i : ConnectionInputs) :
    connTable .CLOSED i = (if i = .SEND_GOAWAY ∨ i = .RECV_GOAWAY then some .CLOSED else none) := by
  cases i <;> decide

/-- every state reaches CLOSED by sending or receiving GOAWAY, and an invalid input closes -/
theorem C19_routes_to_closed (s : ConnectionState) :
    connTable s .SEND_GOAWAY = some .CLOSED ∧ connTable s .RECV_GOAWAY = some .CLOSED := by
  cases s <;> decide

/-- **C19, refusal**: on a closed connection every frame-producing call raises, appends nothing and the
    connection stays closed. -/
theorem C19_refuse (c : Conn) (op : Op) (hc : c.cstate = .CLOSED) (hop : frameCall op = true) :
    (step c op).2.res.isOk = false ∧ (step c op).1.out = c.out ∧ (step c op).1.cstate = .CLOSED := by
  have hcq : CQ c.out c := ⟨hc, rfl⟩
  have key : ∀ m : CM Unit, DeadQuiet c.out m c →
      (runU m c).2.res.isOk = false ∧ (runU m c).1.out = c.out ∧ (runU m c).1.cstate = .CLOSED := by
    intro m hm
    have h := runU_of_wp hm
    cases hres : (runU m c).2.res.isOk with
    | true => exact (h.1 hres).elim
    | false =>
      obtain ⟨_, h1, h2⟩ := h.2 hres
      exact ⟨rfl, h2, h1⟩
  cases op <;> simp only [frameCall] at hop <;> simp only [step] <;> try contradiction
  · exact key _ (sendHeaders_closed _ _ _ _ _ _ _ c hcq)
  · exact key _ (sendData_closed _ _ _ _ _ c hcq)
  · exact key _ (endStream_closed _ _ c hcq)
  · exact key _ (incrementWindow_closed _ _ _ c hcq)
  · exact key _ (pushStream_closed _ _ _ _ c hcq)
  · exact key _ (ping_closed _ _ c hcq)
  · exact key _ (resetStream_closed _ _ _ c hcq)
  · exact key _ (updateSettings_closed _ _ c hcq)
  · exact key _ (altsvc_closed _ _ _ _ c hcq)
  · exact key _ (prioritize_closed _ _ _ _ _ c hcq)

/-- **C19, acknowledge_received_data** on a closed connection changes nothing at all (so emits nothing). -/
theorem C19_ack_quiet (c : Conn) (size sid : Int) (hc : c.cstate = .CLOSED) :
    (step c (.ackData size sid)).1 = c := by
  have h := runU_of_wp (ackData_closed c.out size sid c ⟨hc, rfl⟩)
  simp only [step]
  cases hres : (runU (acknowledgeReceivedData size sid) c).2.res.isOk with
  | true => exact h.1 hres
  | false => obtain ⟨_, h'⟩ := h.2 hres; exact h'

/-- **C19, discard**: receiving GOAWAY drops whatever was not yet handed to the application. -/
theorem C19_goaway_discards (c : Conn) (last code : Int) (extra : Bytes) (fe : FE) (c' : Conn)
    (h : receiveGoawayFrame last code extra c = (.ok fe, c')) : c'.out = [] ∧ c'.cstate = .CLOSED ∧ fe.1 = [] := by
  simp only [receiveGoawayFrame, bind, M.bind, connInput, clearOutboundDataBuffer, modifyS, pure, M.pure] at h
  have hr := (C19_routes_to_closed c.cstate).2
  simp only [hr] at h
  injection h with h1 h2
  injection h1 with h1
  subst h2; subst h1
  exact ⟨rfl, rfl, rfl⟩

/-! ### closed is for ever, and quiet for ever -/

theorem C19_calls_keep_closed : CallsKeep ST where
  initiate := fun c h => pz_apiInitiate c h
  upgrade := fun hdr c h => pz_apiUpgrade hdr c h
  sendHeaders := fun sid hs es pw pd pe c h => pz_apiSendHeaders sid hs es pw pd pe c h
  pushStream := fun sid p hs c h => pz_apiPushStream sid p hs c h
  sendData := fun sid d es pad c h => pz_apiSendData sid d es pad c h
  endStream := fun sid c h => pz_apiEndStream sid c h
  incrementWindow := fun i sid c h => pz_apiIncrementWindow i sid c h
  ping := fun d c h => pz_apiPing d c h
  resetStream := fun sid code c h => pz_apiResetStream sid code c h
  closeConnection := fun code extra last c h => pz_apiCloseConnection code extra last c h
  updateSettings := fun items c h => pz_apiUpdateSettings items c h
  altsvc := fun f o sid c h => pz_apiAltsvc f o sid c h
  prioritize := fun sid w d e c h => pz_apiPrioritize sid w d e c h
  ackData := fun size sid c h => pz_apiAckData size sid c h
  dataToSend := fun n c h => pz_apiDataToSend n c h
  clearOut := fun c h => pz_apiClearOut c h
  localWindow := fun sid c h => pz_apiLocalWindow sid c h
  remoteWindow := fun sid c h => pz_apiRemoteWindow sid c h
  nextStreamId := fun c h => pz_apiNextStreamId c h
  openOut := fun c h => pz_apiOpenOut c h
  openIn := fun c h => pz_apiOpenIn c h

/-- **CLOSED is for ever**: whatever is called and whatever is received afterwards -/
theorem C19_closed_forever (c : Conn) (op : Op) (hc : c.cstate = .CLOSED) : (step c op).1.cstate = .CLOSED := by
  by_cases hr : ∃ d, op = .recv d
  · obtain ⟨d, rfl⟩ := hr
    exact recv_keeps (P := ST) receiveData_st c d hc
  · exact call_keeps C19_calls_keep_closed c op (fun d hd => hr ⟨d, hd⟩) hc

/-- **`receive_data` on a closed connection**: whatever the bytes — frames for live, reset, forgotten or never-used
    streams, naked CONTINUATION frames, garbage — at most one frame is written, and it is a GOAWAY -/
theorem C19_recv_quiet (c : Conn) (d : Bytes) (hc : c.cstate = .CLOSED) :
    (step c (.recv d)).1.sent = c.sent ∨ ∃ last code, (step c (.recv d)).1.sent = c.sent ++ [Frame.goaway last code []] := by
  have := (receiveData_closed d c hc).2
  simp only [step]
  cases hr : receiveData d c with
  | mk r c' =>
    rw [hr] at this
    cases r <;> exact this

/-- frames written from one state to a later one: only GOAWAY frames -/
def OnlyGoaway (s0 s1 : List Frame) : Prop := ∃ gs, s1 = s0 ++ gs ∧ ∀ f ∈ gs, ∃ l k x, f = Frame.goaway l k x

theorem OnlyGoaway.refl (s : List Frame) : OnlyGoaway s s := ⟨[], by simp, by intro f hf; cases hf⟩
theorem OnlyGoaway.trans {a b c : List Frame} (h1 : OnlyGoaway a b) (h2 : OnlyGoaway b c) : OnlyGoaway a c := by
  obtain ⟨g1, e1, p1⟩ := h1
  obtain ⟨g2, e2, p2⟩ := h2
  refine ⟨g1 ++ g2, by rw [e2, e1, List.append_assoc], ?_⟩
  intro f hf
  rcases List.mem_append.mp hf with h | h
  · exact p1 f h
  · exact p2 f h

theorem sent_of_dead {m : CM Unit} {c : Conn} (h : DeadQuietS c.sent m c) : (runU m c).1.sent = c.sent := by
  have hw := runU_of_wp h
  cases hres : (runU m c).2.res.isOk with
  | true => exact (hw.1 hres).elim
  | false => obtain ⟨_, h'⟩ := hw.2 hres; exact h'.2

theorem sent_of_keeps {α : Type} (f : α → Val) (m : CM α) (c : Conn)
    (hk : wp m (fun _ c' => c'.sent = c.sent) (fun _ c' => c'.sent = c.sent) c) :
    (match m c with | (r, c') => (c', ({ res := resOf f r } : Obs))).1.sent = c.sent := by
  unfold wp at hk
  cases hm : m c with
  | mk r c' =>
    rw [hm] at hk
    cases r <;> exact hk

theorem og_prepare {Q : Unit → Conn → Prop} {E : Exc → Conn → Prop} (s0 : List Frame) (fs : List Frame) (c : Conn)
    (h : OnlyGoaway s0 c.sent) (hg : ∀ f ∈ fs, ∃ l k x, f = Frame.goaway l k x)
    (hq : ∀ c', OnlyGoaway s0 c'.sent → Q () c') (he : ∀ e c', OnlyGoaway s0 c'.sent → E e c') :
    wp (prepareForSending fs) Q E c := by
  unfold prepareForSending
  wps
  split
  · exact hq c h
  · cases fs.mapM Frame.serialize? with
    | none => exact he _ c h
    | some bs =>
      simp only
      wps
      have h' : OnlyGoaway s0 (c.sent ++ fs) := h.trans ⟨fs, rfl, hg⟩
      split
      · exact hq _ h'
      · exact he _ _ h'

theorem closeConnection_quiet (code : Int) (extra : Option Bytes) (last : Option Int) (c : Conn) (hc : c.cstate = .CLOSED) :
    wp (closeConnection code extra last) (fun _ c' => OnlyGoaway c.sent c'.sent) (fun _ c' => OnlyGoaway c.sent c'.sent) c := by
  unfold closeConnection
  wps
  with_reducible apply ite_intro
  · intro _; exact OnlyGoaway.refl _
  intro _
  with_reducible apply ite_intro
  · intro _; exact OnlyGoaway.refl _
  intro _
  with_reducible apply ite_intro
  · intro _; exact OnlyGoaway.refl _
  intro _
  have hci : wp (connInput .SEND_GOAWAY)
      (fun _ c' => c'.sent = c.sent ∧ c'.highestIn = c.highestIn) (fun _ c' => c'.sent = c.sent) c := by
    unfold wp connInput
    cases connTable c.cstate .SEND_GOAWAY with
    | none => rfl
    | some t => exact ⟨rfl, rfl⟩
  refine wp_mono hci ?_ (fun _ _ h' => h' ▸ OnlyGoaway.refl _)
  intro _ c1 h1
  wps
  apply og_prepare c.sent _ c1 (h1.1 ▸ OnlyGoaway.refl _)
  · intro f hf; simp only [List.mem_singleton] at hf; exact ⟨_, _, _, hf⟩
  · intro c2 h2; exact h2
  · intro _ c2 h2; exact h2

theorem og_of_runU {m : CM Unit} {c : Conn}
    (h : wp m (fun _ c' => OnlyGoaway c.sent c'.sent) (fun _ c' => OnlyGoaway c.sent c'.sent) c) :
    OnlyGoaway c.sent (runU m c).1.sent := by
  have := runU_of_wp h
  cases hres : (runU m c).2.res.isOk with
  | true => exact this.1 hres
  | false => obtain ⟨_, h'⟩ := this.2 hres; exact h'

theorem sent_of_runI (m : CM Int) (c : Conn)
    (hk : wp m (fun _ c' => c'.sent = c.sent) (fun _ c' => c'.sent = c.sent) c) : (runI m c).1.sent = c.sent :=
  sent_of_keeps _ m c hk

/-- one step from a closed state writes only GOAWAY frames -/
theorem C19_step_quiet (c : Conn) (op : Op) (hc : c.cstate = .CLOSED) : OnlyGoaway c.sent (step c op).1.sent := by
  have hq : CQS c.sent c := ⟨hc, rfl⟩
  have same : ∀ {s : List Frame}, s = c.sent → OnlyGoaway c.sent s := fun h => h ▸ OnlyGoaway.refl _
  have hps : c.sent = c.sent := rfl
  cases op with
  | recv d =>
    rcases C19_recv_quiet c d hc with h | ⟨l, k, h⟩
    · exact same h
    · exact ⟨[Frame.goaway l k []], h, by intro f hf; simp only [List.mem_singleton] at hf; exact ⟨l, k, [], hf⟩⟩
  | sendHeaders sid hs es pw pd pe =>
    show OnlyGoaway c.sent (runU (sendHeaders sid hs es pw pd pe) c).1.sent
    exact same (sent_of_dead (sendHeaders_closedS _ _ _ _ _ _ _ c hq))
  | sendData sid d es pad =>
    show OnlyGoaway c.sent (runU (sendData sid d es pad) c).1.sent
    exact same (sent_of_dead (sendData_closedS _ _ _ _ _ c hq))
  | endStream sid =>
    show OnlyGoaway c.sent (runU (endStream sid) c).1.sent
    exact same (sent_of_dead (endStream_closedS _ _ c hq))
  | incrementWindow i sid =>
    show OnlyGoaway c.sent (runU (incrementFlowControlWindow i sid) c).1.sent
    exact same (sent_of_dead (incrementWindow_closedS _ _ _ c hq))
  | pushStream a b hs =>
    show OnlyGoaway c.sent (runU (pushStream a b hs) c).1.sent
    exact same (sent_of_dead (pushStream_closedS _ _ _ _ c hq))
  | ping d =>
    show OnlyGoaway c.sent (runU (ping d) c).1.sent
    exact same (sent_of_dead (ping_closedS _ _ c hq))
  | resetStream sid code =>
    show OnlyGoaway c.sent (runU (resetStream sid code) c).1.sent
    exact same (sent_of_dead (resetStream_closedS _ _ _ c hq))
  | updateSettings items =>
    show OnlyGoaway c.sent (runU (updateSettings items) c).1.sent
    exact same (sent_of_dead (updateSettings_closedS _ _ c hq))
  | altsvc f o sid =>
    show OnlyGoaway c.sent (runU (advertiseAlternativeService f o sid) c).1.sent
    exact same (sent_of_dead (altsvc_closedS _ _ _ _ c hq))
  | prioritize sid w d e =>
    show OnlyGoaway c.sent (runU (prioritize sid w d e) c).1.sent
    exact same (sent_of_dead (prioritize_closedS _ _ _ _ _ c hq))
  | ackData size sid =>
    have h := runU_of_wp (ackData_closedS c.sent size sid c hq)
    refine same ?_
    show (runU (acknowledgeReceivedData size sid) c).1.sent = c.sent
    cases hres : (runU (acknowledgeReceivedData size sid) c).2.res.isOk with
    | true => rw [h.1 hres]
    | false => obtain ⟨_, h'⟩ := h.2 hres; rw [h']
  | initiateConnection =>
    refine same ?_
    show (runU initiateConnection c).1.sent = c.sent
    have hd : DeadQuietS c.sent initiateConnection c := by
      simp only [initiateConnection, settingsFrameOfLocal]; closeds_auto
    exact sent_of_dead hd
  | initiateUpgrade hdr =>
    have hd : wp (initiateUpgradeConnection (fun items => do let _ ← receiveSettingsFrame false items; pure ()) hdr)
        (fun _ _ => False) (fun _ c' => CQS c.sent c') c := by
      simp only [initiateUpgradeConnection, receiveSettingsFrame]; closeds_auto
    exact same (sent_of_keeps _ _ c (wp_mono hd (fun _ _ hf => hf.elim) (fun _ _ h' => h'.2)))
  | closeConnection code extra last =>
    show OnlyGoaway c.sent (runU (closeConnection code extra last) c).1.sent
    exact og_of_runU (closeConnection_quiet code extra last c hc)
  | dataToSend n =>
    have hk : wp (dataToSend n) (fun _ c' => c'.sent = c.sent) (fun _ c' => c'.sent = c.sent) c := by
      unfold dataToSend; wps; split <;> (try wps) <;> first | rfl | trivial
    exact same (sent_of_keeps _ _ c hk)
  | clearOut =>
    refine same ?_
    show (runU clearOutboundDataBuffer c).1.sent = c.sent
    rfl
  | query q =>
    refine same ?_
    cases q with
    | localWindow sid =>
      refine sent_of_runI _ c ?_
      unfold localFlowControlWindow; ps_auto
    | remoteWindow sid =>
      refine sent_of_runI _ c ?_
      unfold remoteFlowControlWindow; ps_auto
    | nextStreamId =>
      have hk : wp getNextAvailableStreamId (fun _ c' => c'.sent = c.sent) (fun _ c' => c'.sent = c.sent) c := by
        unfold getNextAvailableStreamId; ps_auto
      exact sent_of_runI _ c hk
    | openOut =>
      refine sent_of_runI _ c ?_
      unfold openOutboundStreams; ps_auto
    | openIn =>
      refine sent_of_runI _ c ?_
      unfold openInboundStreams; ps_auto
    | inboundWindow =>
      refine sent_of_runI (do let c ← getS; pure c.inWM.current_window_size) c ?_
      wps

/-- **quiet for ever**: from a closed connection, whatever sequence of calls and deliveries follows, every frame that
    is written is a GOAWAY -/
theorem C19_quiet_for_ever (c : Conn) (ops : List Op) (hc : c.cstate = .CLOSED) :
    (run c ops).1.cstate = .CLOSED ∧ OnlyGoaway c.sent (run c ops).1.sent := by
  induction ops generalizing c with
  | nil => exact ⟨hc, OnlyGoaway.refl _⟩
  | cons op ops ih =>
    have h1 := C19_closed_forever c op hc
    have h2 := C19_step_quiet c op hc
    have := ih (step c op).1 h1
    simp only [run]
    exact ⟨this.1, h2.trans this.2⟩

/-- non-vacuity: a closed connection with pending output exists and `ping` on it is refused -/
example : let c := { Conn.init { client := true } with cstate := .CLOSED, out := [1, 2, 3] }
    (step c (.ping [0,0,0,0,0,0,0,0])).2.res.isOk = false ∧ (step c (.ping [0,0,0,0,0,0,0,0])).1.out = [1, 2, 3] := by
  intro c
  have h := C19_refuse c (.ping [0,0,0,0,0,0,0,0]) rfl rfl
  exact ⟨h.1, h.2.1⟩

end H2.C19
