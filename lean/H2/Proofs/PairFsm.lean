/-
  The stream state machine seen from both ends (decided over the table regenerated from stream.py).

  `mirror` turns one endpoint's view of a stream into the view the other endpoint has when nothing is in flight
  (half-closed local ↔ remote, reserved local ↔ remote, sent ↔ received flags, client ↔ server).  The theorems say
  that the two copies of the machine fit together: what one side's machine lets the application send, the other
  side's machine accepts — synchronously (`fsm_sync`), and when one frame from each side crosses in flight
  (`fsm_cross`) — with exactly one exception, which is the known finding D17b (a server's DATA / END_STREAM before
  its response headers).  A closed stream sends nothing and swallows whatever arrives, except a PUSH_PROMISE on a
  stream that was not closed by our own reset (`closed_*`).

  These are the one-frame-each-way statements.  The general one — any number of frames of all kinds in flight in both
  directions, any interleaving — is `full_never_refused` in Proofs/PairReachMain (via PairReach / PairReachFull).
-/
import H2.Proofs.Shapes
namespace H2
open H2.Gen

namespace PairFsm

def mirState : StreamState → StreamState
  | .HALF_CLOSED_LOCAL => .HALF_CLOSED_REMOTE
  | .HALF_CLOSED_REMOTE => .HALF_CLOSED_LOCAL
  | .RESERVED_LOCAL => .RESERVED_REMOTE
  | .RESERVED_REMOTE => .RESERVED_LOCAL
  | s => s

def mirClosedBy : StreamClosedBy → StreamClosedBy
  | .SEND_END_STREAM => .RECV_END_STREAM
  | .RECV_END_STREAM => .SEND_END_STREAM
  | .SEND_RST_STREAM => .RECV_RST_STREAM
  | .RECV_RST_STREAM => .SEND_RST_STREAM

/-- the other endpoint's view of the same stream when nothing is in flight -/
def mirror (s : Shape) : Shape :=
  { state := mirState s.state, client := s.client.map (!·), headersSent := s.headersReceived,
    trailersSent := s.trailersReceived, headersReceived := s.headersSent, trailersReceived := s.trailersSent,
    closedBy := s.closedBy.map mirClosedBy }

/-- the input the peer's machine gets when this side's machine took a SEND input -/
def recvOf : StreamInputs → Option StreamInputs
  | .SEND_HEADERS => some .RECV_HEADERS
  | .SEND_PUSH_PROMISE => some .RECV_PUSH_PROMISE
  | .SEND_RST_STREAM => some .RECV_RST_STREAM
  | .SEND_DATA => some .RECV_DATA
  | .SEND_WINDOW_UPDATE => some .RECV_WINDOW_UPDATE
  | .SEND_END_STREAM => some .RECV_END_STREAM
  | .SEND_INFORMATIONAL_HEADERS => some .RECV_INFORMATIONAL_HEADERS
  | .SEND_ALTERNATIVE_SERVICE => some .RECV_ALTERNATIVE_SERVICE
  | _ => none

def isOk : ProcRes → Bool
  | .ok _ => true
  | _ => false

/-- not a connection error: accepted, or the "stream closed" signal that `_receive_frame` answers with RST_STREAM -/
def graceful : ProcRes → Bool
  | .proto => false
  | _ => true

/-- how a frame must be received for C01: accepted — or, on a stream that is already closed here (frames racing a
    reset or an END_STREAM), dealt with quietly.  A stream error on a live stream (the library resets the stream
    because the frame does not fit its state) is NOT fine: the sender's successful send would be rejected -/
def fine (s : Shape) (j : StreamInputs) : Bool :=
  isOk (stepShape s j).1 || (s.state == .CLOSED && graceful (stepShape s j).1)

/-- a send the application may make on a stream that exists: its own machine accepts it, and it is not the known
    finding D17b (the responder's DATA / END_STREAM before its response headers) -/
def maySend (s : Shape) (i : StreamInputs) : Bool :=
  (recvOf i).isSome && isOk (stepShape s i).1 && s.state != .IDLE &&
  !((i == .SEND_DATA || i == .SEND_END_STREAM) && s.client == some false && !s.headersSent)

/-- both closed, or the same -/
def sameOrClosed (a b : Shape) : Bool := (a.state == .CLOSED && b.state == .CLOSED) || a == b

/-! ### synchronously -/

def syncOk (s : Shape) (i : StreamInputs) : Bool :=
  !Good s || !maySend s i ||
  (match recvOf i with
   | none => true
   | some j =>
     let (r, t') := stepShape (mirror s) j
     isOk r && t' == mirror (stepShape s i).2)

/-- **what one side may send, the other side accepts, and the two views stay mirror images** (nothing else in
    flight) -/
theorem fsm_sync : ∀ s i, syncOk s i = true := forall_shape_input (by decide +kernel)

/-- the exclusion in `maySend` is needed, and is exactly D17b: a server's DATA before its response headers is accepted
    by its own machine and refused by the client's -/
theorem fsm_sync_D17b_witness :
    let s : Shape := { state := .OPEN, client := some false, headersReceived := true }
    isOk (stepShape s .SEND_DATA).1 = true ∧ graceful (stepShape (mirror s) .RECV_DATA).1 = false := by decide

/-- opening a stream: the first HEADERS / PUSH_PROMISE on an idle stream is accepted by the other side's idle stream
    and the views are mirror images afterwards -/
theorem fsm_open :
    (let s : Shape := {}
     isOk (stepShape s .SEND_HEADERS).1 = true ∧ isOk (stepShape s .RECV_HEADERS).1 = true ∧
     (stepShape s .RECV_HEADERS).2 = mirror (stepShape s .SEND_HEADERS).2 ∧
     isOk (stepShape s .SEND_PUSH_PROMISE).1 = true ∧ isOk (stepShape s .RECV_PUSH_PROMISE).1 = true ∧
     (stepShape s .RECV_PUSH_PROMISE).2 = mirror (stepShape s .SEND_PUSH_PROMISE).2) := by decide

/-! ### one frame from each side crossing in flight -/

def crossOk (s : Shape) (i : StreamInputs) : Bool :=
  !Good s || !maySend s i ||
  StreamInputs.all.all fun k =>
    !maySend (mirror s) k ||
    (match recvOf i, recvOf k with
     | some ri, some rk =>
       let s1 := (stepShape s i).2            -- this side has sent i
       let t1 := (stepShape (mirror s) k).2   -- the other side has sent k
       let (ra, s2) := stepShape s1 rk        -- this side receives k
       let (rb, t2) := stepShape t1 ri        -- the other side receives i
       fine s1 rk && fine t1 ri && (!(isOk ra && isOk rb) || sameOrClosed t2 (mirror s2))
     | _, _ => true)

/-- **frames crossing in flight**: from mirror-image views, each side sends something its machine allows; then each
    receives the other's frame.  Both receipts are fine (accepted, or dealt with quietly by a stream this side has closed
    meanwhile), and if both are accepted the views are mirror images again (or both closed) -/
theorem fsm_cross : ∀ s i, crossOk s i = true := forall_shape_input (by decide +kernel)

/-! ### closed streams -/

def closedQuiet (s : Shape) (i : StreamInputs) : Bool :=
  !Good s || s.state != .CLOSED ||
  (-- nothing may be sent on it any more
   !maySend s i &&
   -- whatever arrives is dealt with, except a PUSH_PROMISE on a stream that was not closed by our own reset
   (match recvOf i with
    | none => true
    | some j => graceful (stepShape s j).1 || (j == .RECV_PUSH_PROMISE && s.closedBy != some .SEND_RST_STREAM)) &&
   -- and it stays closed
   (stepShape s i).2.state == .CLOSED)

theorem closed_quiet : ∀ s i, closedQuiet s i = true := forall_shape_input (by decide +kernel)

/-- on a stream we reset ourselves every frame the peer may still send is dealt with (the statement C20 needs,
    restated here for the pair) -/
def resetSwallows (s : Shape) (i : StreamInputs) : Bool :=
  !Good s || s.state != .CLOSED || s.closedBy != some .SEND_RST_STREAM ||
  (match recvOf i with
   | none => true
   | some j => graceful (stepShape s j).1 && (stepShape s j).2 == s)

theorem reset_swallows : ∀ s i, resetSwallows s i = true := forall_shape_input (by decide +kernel)

/-- non-vacuity: an open request stream, a client sending DATA while the server sends its response headers -/
example :
    let s : Shape := { state := .OPEN, client := some true, headersSent := true }
    Good s = true ∧ maySend s .SEND_DATA = true ∧ maySend (mirror s) .SEND_HEADERS = true := by decide

end PairFsm
end H2
