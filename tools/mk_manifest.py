#!/usr/bin/env python3
"""Writes /verif/MANIFEST.json from props.json (which properties have theorems) and the texts below."""
import json
import os

ROOT = os.path.dirname(os.path.dirname(os.path.abspath(__file__)))
props = json.load(open(os.path.join(ROOT, 'theorems.json')))
ids = [json.loads(l)['id'] for l in open(os.path.join(ROOT, 'properties.jsonl'))]

TEXT = {
    'C05': ('Lean 4 theorems about the WindowManager that is regenerated from windows.py on every run: ledger invariant by induction '
            'over all histories (no over-credit, window <= max = acknowledged INITIAL_WINDOW_SIZE <= 2^31-1), no stall after an '
            'acknowledgement (partial: the stall after a negative settings delta is proved to exist and is a known finding); '
            'correspondence of the whole connection model with the real library on generated programs with the application '
            'acknowledging every byte.', 'DESIGN.md section 0 and section 7 C05'),
    'C29': ('Lean 4 theorems: in every state reachable from a fresh connection by public calls with well-typed arguments and by '
            'receive_data on arbitrary bytes (an invariant proved preserved by all of them), EVERY public call - the covered '
            'calls, send_headers (header tuples two byte strings or two text strings), push_stream, initiate_connection and '
            'initiate_upgrade_connection (HTTP2-Settings value base64) - returns or raises an h2 exception / ValueError having '
            'left the output buffer and the history of sent frames unchanged (C29_call, C29_every_call), and calls on a stream '
            'id that is not in the table raise exactly NoSuchStreamError above the high-water mark and StreamClosedError below '
            'it (C29_lookup_*). Outside the theorems: ill-typed header tuples and non-base64 header values (TypeError / '
            'binascii.Error of the Python runtime), decided by the oracle on real traces.',
            'DESIGN.md section 0 and section 7 C29'),
    'C13': ('Lean 4 theorems with HPACK as an abstract recorded context: H2Stream.send_headers and push_stream_in_band, for every '
            'stream state, header list and configuration, and H2Connection.send_headers / push_stream as a whole in every '
            'reachable state, either raise with the context untouched or make exactly one encode call (of the normalised list) '
            'whose output is exactly what the emitted HEADERS/PUSH_PROMISE/CONTINUATION frames carry, in fragments that fit the '
            'frame size; a peer HEADER_TABLE_SIZE change reaches the encoder once. The real HPACK coder is outside the model: '
            'decided by the correspondence check and by oracle_C13 (independent hpack.Decoder on the real output).',
            'DESIGN.md section 0 and section 7 C13'),
    'C01': ('Partial. Lean 4 theorems for the part that does not depend on the two endpoints\' joint state: every frame type as '
            'the library writes it is parsed back as the same frame object (C01_wire_*, with the header, PRIORITY and SETTINGS '
            'round trips of C02/C23/C25), a header block that passed outbound normalisation and validation satisfies the inbound '
            'rule book (Pair.emitted_block_is_accepted), chunking does not matter (C21), a raising call writes nothing in any '
            'reachable state (C29_every_call), and the two races the pair histories exposed are closed (C04_empty_frame_fits, '
            'C20_forgotten_headers). NOT proved: the joint invariant of sender and receiver with the frames in flight; that '
            'each delivery is accepted and the receiver\'s events reproduce the sender\'s calls is decided by oracle_C01 on '
            'pair histories (random programs and the conversation generator) together with the correspondence check; nine '
            'known findings (known_findings.json) are printed, anything else is a violation.',
            'DESIGN.md section 0 and section 7 C01'),
}
DEFAULT_NOTE = ('Trusted: Lean kernel; axioms propext/Classical.choice/Quot.sound only (audited each run); the translators for the '
                'regenerated parts; the differential harness for the hand-modelled parts of connection.py/stream.py/utilities.py/'
                'frame_buffer.py/settings.py; hyperframe/hpack/CPython behaviour mirrored in the model; HPACK is an abstract oracle.')

checks = []
na = []
for pid in ids:
    if pid in props and props[pid].get('theorems'):
        text, ref = TEXT.get(pid, ('Lean 4 theorems about the model of this property (see theorems.json for the theorem names) plus a '
                                   'correspondence check of the model against the real library under the property projection and an '
                                   'independent oracle on the real traces.', 'DESIGN.md section 0 and section 7 ' + pid))
        checks.append({
            'property_id': pid,
            'quick_cmd': './check %s --tier quick' % pid,
            'thorough_cmd': './check %s --tier thorough' % pid,
            'evidence_file': 'evidence/%s.json' % pid,
            'replay_cmd_template': './check --replay {path}',
            'engine': 'lean4-model+correspondence',
            'level_claimed': {'category': 'proof', 'text': text, 'design_ref': ref},
            'level_note': DEFAULT_NOTE,
            'technique': 'machine-checked proof in Lean 4 (model regenerated/corresponded to the code each run)',
        })
    else:
        na.append({'property_id': pid, 'reason': 'not claimed: the technique applies and the model covers the code, but the property theorems are not written yet, so no check is registered (DESIGN.md section 0.1); not a statement that the property cannot be decided'})

m = {
    'version': 1,
    'setup_cmd': './setup.sh',
    'hooks': {'guard': 'H2_VERIF',
              'enable': 'none needed: all observation is through the public API, pass-through HPACK taps and read-only peeks '
                        'installed by the harness at run time; the guard is never set and /repo carries no hook commits',
              'baseline_off_cmd': 'python3 tools/baseline.py', 'source_commits': [], 'add_only': True},
    'engines': [{'name': 'lean4-model+correspondence', 'path': 'lean/ + harness/ + check',
                 'serves_properties': [c['property_id'] for c in checks],
                 'kind_free_text': 'Lean 4 model of H2Connection (hand-written + generated tables/arithmetic), theorems per '
                                   'property, differential correspondence harness, per-property oracles'}],
    'checks': checks,
    'notes': 'see DESIGN.md; known defects of the unchanged tree are in known_findings.json',
    'not_applicable': na,
}
json.dump(m, open(os.path.join(ROOT, 'MANIFEST.json'), 'w'), indent=1)
print('checks: %d, not claimed: %d' % (len(checks), len(na)))
