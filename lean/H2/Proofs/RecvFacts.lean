/-
  Facts for the receive path: which exceptions it may raise (GoodExc) and what the generated stream table
  guarantees about the event lists the stream methods index into.
-/
import H2.Proofs.StreamLemmas
import H2.Proofs.Shapes
namespace H2
open H2.Gen H2.Conn

/-! ### exceptions the receive path may raise -/

/-- an h2 `ProtocolError` (or subclass) whose error code fits the 32-bit field of GOAWAY / RST_STREAM -/
def GoodExc (e : Exc) : Prop :=
  match e with
  | .h2 cls code _ _ => cls.isSub .ProtocolError = true ∧ ∃ k, code = some k ∧ 0 ≤ k ∧ k < 4294967296
  | .py _ => False

theorem goodExc_mkExc (cls : ExcClass) (sid : Option Int) (h : cls.isSub .ProtocolError = true) : GoodExc (mkExc cls sid) := by
  unfold GoodExc mkExc
  refine ⟨h, ?_⟩
  cases cls <;> first | (exact absurd h (by decide)) | exact ⟨_, rfl, by decide, by decide⟩

theorem goodExc_pErr : GoodExc pErr := goodExc_mkExc _ _ (by decide)
theorem goodExc_protoErr' : GoodExc protoErr' := goodExc_mkExc _ _ (by decide)
theorem goodExc_protoErr : GoodExc protoErr := goodExc_mkExc _ _ (by decide)
theorem goodExc_streamClosed (sid : Int) (evs : List Event) : GoodExc (mkStreamClosed sid evs) := by
  unfold GoodExc mkStreamClosed
  exact ⟨by decide, _, rfl, by decide, by decide⟩

theorem goodExc_ofPyErr_h2 (c : ExcClass) (h : c.isSub .ProtocolError = true) : GoodExc (ofPyErr (.h2 c)) :=
  goodExc_mkExc c none h

/-! ### table facts (decided over the generated stream table, all 1 680 shapes) -/

def hdrEvOk (e : SEv) : Bool :=
  e == .RequestReceived || e == .ResponseReceived || e == .TrailersReceived || e == .InformationalResponseReceived

def evsHdr (sh : Shape) (i : StreamInputs) : Bool :=
  match (stepShape sh i).1 with
  | .ok [e] => hdrEvOk e
  | .ok _ => false
  | _ => true

def evsNonempty (sh : Shape) (i : StreamInputs) : Bool :=
  match (stepShape sh i).1 with
  | .ok [] => false
  | _ => true

def thenEndOk (sh : Shape) (i : StreamInputs) : Bool :=
  match stepShape sh i with
  | (.ok _, sh') => evsNonempty sh' .RECV_END_STREAM
  | _ => true

def neverOk (sh : Shape) (i : StreamInputs) : Bool :=
  match (stepShape sh i).1 with
  | .ok _ => false
  | _ => true

def altOk (sh : Shape) : Bool :=
  match (stepShape sh .RECV_ALTERNATIVE_SERVICE).1 with
  | .ok (e :: _) => e == .AlternativeServiceAvailable
  | _ => true

theorem tbl_hdr : ∀ s, evsHdr s .RECV_HEADERS = true := forall_shape (by decide +kernel)
theorem tbl_info : ∀ s, evsHdr s .RECV_INFORMATIONAL_HEADERS = true := forall_shape (by decide +kernel)
theorem tbl_hdr_end : ∀ s, thenEndOk s .RECV_HEADERS = true := forall_shape (by decide +kernel)
theorem tbl_info_end : ∀ s, thenEndOk s .RECV_INFORMATIONAL_HEADERS = true := forall_shape (by decide +kernel)
theorem tbl_data : ∀ s, evsNonempty s .RECV_DATA = true := forall_shape (by decide +kernel)
theorem tbl_data_end : ∀ s, thenEndOk s .RECV_DATA = true := forall_shape (by decide +kernel)
theorem tbl_cont : ∀ s, neverOk s .RECV_CONTINUATION = true := forall_shape (by decide +kernel)
theorem tbl_push : ∀ s, (s.state == .IDLE || evsNonempty s .RECV_PUSH_PROMISE) = true := forall_shape (by decide +kernel)
theorem tbl_alt : ∀ s, altOk s = true := forall_shape (by decide +kernel)
/-- a stream that has left IDLE never returns to it -/
theorem tbl_not_idle : ∀ s i, (s.state == .IDLE || (stepShape s i).2.state != .IDLE) = true :=
  forall_shape_input (by decide +kernel)
/-- the inputs that take a fresh stream out of IDLE (also when they are refused) -/
def leavesIdle (i : StreamInputs) : Bool :=
  i == .RECV_HEADERS || i == .RECV_INFORMATIONAL_HEADERS || i == .RECV_PUSH_PROMISE || i == .SEND_HEADERS
  || i == .SEND_INFORMATIONAL_HEADERS || i == .SEND_PUSH_PROMISE || i == .UPGRADE_CLIENT || i == .UPGRADE_SERVER
theorem tbl_leaves_idle : ∀ s i, (!leavesIdle i || (stepShape s i).2.state != .IDLE) = true :=
  forall_shape_input (by decide +kernel)

theorem evsHdr_elim {sh sh' : Shape} {i : StreamInputs} {evs : List SEv} (h : evsHdr sh i = true)
    (hs : stepShape sh i = (.ok evs, sh')) : ∃ e, evs = [e] ∧ hdrEvOk e = true := by
  unfold evsHdr at h
  rw [hs] at h
  match evs, h with
  | [e], h => exact ⟨e, rfl, h⟩

theorem evsNonempty_elim {sh sh' : Shape} {i : StreamInputs} {evs : List SEv} (h : evsNonempty sh i = true)
    (hs : stepShape sh i = (.ok evs, sh')) : evs ≠ [] := by
  unfold evsNonempty at h
  rw [hs] at h
  intro he; subst he; simp at h

theorem thenEndOk_elim {sh sh' : Shape} {i : StreamInputs} {evs : List SEv} (h : thenEndOk sh i = true)
    (hs : stepShape sh i = (.ok evs, sh')) : evsNonempty sh' .RECV_END_STREAM = true := by
  unfold thenEndOk at h
  rw [hs] at h
  exact h

end H2
