/-
  Frames, their serialisation and parsing — a mirror of hyperframe 6.1.0
  (`Frame.serialize`, `Frame.parse_frame_header`, `parse_body`), including
  its masks (`stream_id & 0x7FFFFFFF`, `setting & 0xFF`), its `struct`
  range failures and its three parse error kinds.
-/
import H2.Model.Basic

namespace H2
open H2.Gen

structure Prio where
  dependsOn : Int
  weight : Int
  exclusive : Bool
deriving DecidableEq, Repr, Inhabited

/-- One frame object.  All numeric fields are `Int` (Python ints); what the
    wire can carry is decided by `serialize`. -/
inductive Frame where
  | data (sid : Int) (payload : Bytes) (endStream : Bool) (pad : Option Int)
  | headers (sid : Int) (block : Bytes) (endStream endHeaders : Bool) (pad : Option Int) (prio : Option Prio)
  | priority (sid : Int) (prio : Prio)
  | rstStream (sid : Int) (code : Int)
  | settings (ack : Bool) (items : List (Int × Int))
  | pushPromise (sid : Int) (promised : Int) (block : Bytes) (endHeaders : Bool) (pad : Option Int)
  | ping (ack : Bool) (payload : Bytes)
  | goaway (last : Int) (code : Int) (extra : Bytes)
  | windowUpdate (sid : Int) (incr : Int)
  | continuation (sid : Int) (block : Bytes) (endHeaders : Bool)
  | altsvc (sid : Int) (origin field : Bytes)
  | ext (type flags sid : Int) (body : Bytes)
deriving DecidableEq, Repr, Inhabited

def Frame.sid : Frame → Int
  | .data s .. | .headers s .. | .priority s .. | .rstStream s .. | .pushPromise s ..
  | .windowUpdate s .. | .continuation s .. | .altsvc s .. => s
  | .settings .. | .ping .. | .goaway .. => 0
  | .ext _ _ s _ => s

def Frame.typeCode : Frame → Int
  | .data .. => 0 | .headers .. => 1 | .priority .. => 2 | .rstStream .. => 3 | .settings .. => 4
  | .pushPromise .. => 5 | .ping .. => 6 | .goaway .. => 7 | .windowUpdate .. => 8
  | .continuation .. => 9 | .altsvc .. => 10 | .ext t .. => t

/-! ### struct.pack -/

def u8? (n : Int) : Option Bytes := if 0 ≤ n ∧ n < 256 then some [UInt8.ofNat n.toNat] else none
def be16 (n : Nat) : Bytes := [UInt8.ofNat (n / 256 % 256), UInt8.ofNat (n % 256)]
def be24 (n : Nat) : Bytes := [UInt8.ofNat (n / 65536 % 256), UInt8.ofNat (n / 256 % 256), UInt8.ofNat (n % 256)]
def be32 (n : Nat) : Bytes :=
  [UInt8.ofNat (n / 16777216 % 256), UInt8.ofNat (n / 65536 % 256), UInt8.ofNat (n / 256 % 256), UInt8.ofNat (n % 256)]
def u16? (n : Int) : Option Bytes := if 0 ≤ n ∧ n < 65536 then some (be16 n.toNat) else none
def u32? (n : Int) : Option Bytes := if 0 ≤ n ∧ n < 4294967296 then some (be32 n.toNat) else none

def rd16 : Bytes → Nat
  | [a, b] => a.toNat * 256 + b.toNat
  | _ => 0
def rd24 : Bytes → Nat
  | [a, b, c] => a.toNat * 65536 + b.toNat * 256 + c.toNat
  | _ => 0
def rd32 : Bytes → Nat
  | [a, b, c, d] => a.toNat * 16777216 + b.toNat * 65536 + c.toNat * 256 + d.toNat
  | _ => 0

/-- Python `x & 0x7FFFFFFF` for any int (two's complement semantics) -/
def mask31 (n : Int) : Nat := (n % 2147483648).toNat
def mask8 (n : Int) : Nat := (n % 256).toNat

def zeros (n : Int) : Bytes := List.replicate n.toNat 0

/-! ### serialisation -/

def prioBytes? (p : Prio) : Option Bytes := do
  let a ← u32? (p.dependsOn + (if p.exclusive then 2147483648 else 0))
  let b ← u8? p.weight
  pure (a ++ b)

/-- `serialize_body`; `none` = `struct.error` -/
def Frame.body? : Frame → Option Bytes
  | .data _ payload _ pad => do
      let pd ← match pad with | none => some [] | some p => u8? p
      pure (pd ++ payload ++ zeros (pad.getD 0))
  | .headers _ block _ _ pad prio => do
      let pd ← match pad with | none => some [] | some p => u8? p
      let pr ← match prio with | none => some [] | some p => prioBytes? p
      pure (pd ++ pr ++ block ++ zeros (pad.getD 0))
  | .priority _ p => prioBytes? p
  | .rstStream _ code => u32? code
  | .settings _ items => items.foldlM (fun acc (kv : Int × Int) => do
      let v ← u32? kv.2
      pure (acc ++ be16 (mask8 kv.1) ++ v)) []
  | .pushPromise _ promised block _ pad => do
      let pd ← match pad with | none => some [] | some p => u8? p
      let pr ← u32? promised
      pure (pd ++ pr ++ block ++ zeros (pad.getD 0))
  | .ping _ payload => if payload.length > 8 then none else some (payload ++ zeros (8 - payload.length))
  | .goaway last code extra => do
      let c ← u32? code
      pure (be32 (mask31 last) ++ c ++ extra)
  | .windowUpdate _ incr => some (be32 (mask31 incr))
  | .continuation _ block _ => some block
  | .altsvc _ origin field => do
      let l ← u16? origin.length
      pure (l ++ origin ++ field)
  | .ext _ _ _ body => some body

def Frame.flagByte : Frame → Nat
  | .data _ _ es pad => (if es then 1 else 0) + (if pad.isSome then 8 else 0)
  | .headers _ _ es eh pad prio =>
      (if es then 1 else 0) + (if eh then 4 else 0) + (if pad.isSome then 8 else 0) + (if prio.isSome then 32 else 0)
  | .settings ack _ => if ack then 1 else 0
  | .pushPromise _ _ _ eh pad => (if eh then 4 else 0) + (if pad.isSome then 8 else 0)
  | .ping ack _ => if ack then 1 else 0
  | .continuation _ _ eh => if eh then 4 else 0
  | .ext _ fl _ _ => fl.toNat
  | _ => 0

/-- `Frame.serialize()`: 9-byte header + body.  `none` = `struct.error`. -/
def Frame.serialize? (f : Frame) : Option Bytes := do
  let body ← f.body?
  let t ← u8? f.typeCode
  -- length is packed as ">HB": (len >> 8) & 0xFFFF, len & 0xFF
  let fl ← u8? f.flagByte
  pure (be16 (body.length / 256 % 65536) ++ [UInt8.ofNat (body.length % 256)] ++ t ++ fl ++ be32 (mask31 f.sid) ++ body)

def Frame.bodyLen (f : Frame) : Nat := (f.body?.getD []).length

/-! ### parsing (receive side) -/

inductive ParseErr where
  | invalidData      -- hyperframe InvalidDataError
  | invalidFrame     -- hyperframe InvalidFrameError
  | invalidPadding   -- hyperframe InvalidPaddingError
deriving DecidableEq, Repr, Inhabited

/-- A frame as it comes out of `parse_frame_header` + `parse_body`; DATA keeps
    its flow-controlled length. -/
structure RFrame where
  frame : Frame
  fcl : Nat := 0           -- DataFrame.flow_controlled_length
deriving DecidableEq, Repr, Inhabited

def hasBit (flags : Nat) (bit : Nat) : Bool := flags / bit % 2 = 1

/-- stream association check of the frame constructors (`FRAMES[type](stream_id)`) -/
def assocOk (type : Nat) (sid : Nat) : Bool :=
  match type with
  | 0 | 1 | 2 | 3 | 5 | 9 => sid != 0          -- has-stream
  | 4 | 6 | 7 => sid == 0                      -- no-stream
  | _ => true                                   -- either (WINDOW_UPDATE, ALTSVC, extension)

structure FrameHeader where
  length : Nat
  type : Nat
  flags : Nat
  sid : Nat
deriving DecidableEq, Repr, Inhabited

def parseFrameHeader (h : Bytes) : Except ParseErr FrameHeader :=
  match h with
  | [l0, l1, l2, t, fl, s0, s1, s2, s3] =>
    let sid := rd32 [s0, s1, s2, s3] % 2147483648
    if assocOk t.toNat sid then
      .ok { length := rd24 [l0, l1, l2], type := t.toNat, flags := fl.toNat, sid := sid }
    else .error .invalidData
  | _ => .error .invalidFrame

/-- `data[a:b]` on bytes with Python slice semantics for non-negative a and any Int b -/
def pySlice (d : Bytes) (a : Nat) (b : Int) : Bytes :=
  let b' : Nat := if b < 0 then (Int.toNat (d.length + b)) else b.toNat
  (d.take b').drop a

def parseBody (h : FrameHeader) (d : Bytes) : Except ParseErr RFrame :=
  let sid : Int := h.sid
  let fl := h.flags
  match h.type with
  | 0 => -- DATA
    let padded := hasBit fl 8
    if padded && d.isEmpty then .error .invalidFrame else
    let padLen : Nat := if padded then (d.headD 0).toNat else 0
    let off := if padded then 1 else 0
    let payload := pySlice d off ((d.length : Int) - padLen)
    if padLen != 0 && padLen ≥ d.length then .error .invalidPadding else
    .ok { frame := .data sid payload (hasBit fl 1) (if padded then some padLen else none),
          fcl := payload.length + (if padded then padLen + 1 else 0) }
  | 1 => -- HEADERS
    let padded := hasBit fl 8
    if padded && d.isEmpty then .error .invalidFrame else
    let padLen : Nat := if padded then (d.headD 0).toNat else 0
    let d1 := if padded then d.drop 1 else d
    let hasPrio := hasBit fl 32
    if hasPrio && d1.length < 5 then .error .invalidFrame else
    let prio : Option Prio := if hasPrio then
        let dep := rd32 (d1.take 4)
        some { dependsOn := dep % 2147483648, weight := ((d1.drop 4).headD 0).toNat, exclusive := dep / 2147483648 = 1 }
      else none
    let block := pySlice d1 (if hasPrio then 5 else 0) ((d1.length : Int) - padLen)
    if padLen != 0 && padLen ≥ d1.length then .error .invalidPadding else
    .ok { frame := .headers sid block (hasBit fl 1) (hasBit fl 4) (if padded then some padLen else none) prio }
  | 2 => -- PRIORITY
    if d.length != 5 then .error .invalidFrame else
    let dep := rd32 (d.take 4)
    .ok { frame := .priority sid { dependsOn := dep % 2147483648, weight := ((d.drop 4).headD 0).toNat,
                                    exclusive := dep / 2147483648 = 1 } }
  | 3 => if d.length != 4 then .error .invalidFrame else .ok { frame := .rstStream sid (rd32 d) }
  | 4 => -- SETTINGS
    let ack := hasBit fl 1
    if ack && d.length > 0 then .error .invalidData else
    if d.length % 6 != 0 then .error .invalidFrame else
    .ok { frame := .settings ack (go d.length d []) }
  | 5 => -- PUSH_PROMISE
    let padded := hasBit fl 8
    if padded && d.isEmpty then .error .invalidFrame else
    let padLen : Nat := if padded then (d.headD 0).toNat else 0
    let off := if padded then 1 else 0
    if d.length < off + 4 then .error .invalidFrame else
    let promised := rd32 ((d.drop off).take 4)
    let block := pySlice d (off + 4) ((d.length : Int) - padLen)
    if promised = 0 || promised % 2 != 0 then .error .invalidData else
    if padLen != 0 && padLen ≥ d.length then .error .invalidPadding else
    .ok { frame := .pushPromise sid promised block (hasBit fl 4) (if padded then some padLen else none) }
  | 6 => if d.length != 8 then .error .invalidFrame else .ok { frame := .ping (hasBit fl 1) d }
  | 7 => if d.length < 8 then .error .invalidFrame else
    .ok { frame := .goaway (rd32 (d.take 4)) (rd32 ((d.drop 4).take 4)) (d.drop 8) }
  | 8 => if d.length != 4 then .error .invalidFrame else
    let incr := rd32 d
    if incr < 1 || incr > 2147483647 then .error .invalidData else .ok { frame := .windowUpdate sid incr }
  | 9 => .ok { frame := .continuation sid d (hasBit fl 4) }
  | 10 =>
    if d.length < 2 then .error .invalidFrame else
    let ol := rd16 (d.take 2)
    if (d.drop 2).length < ol then .error .invalidFrame else
    .ok { frame := .altsvc sid ((d.drop 2).take ol) (d.drop (2 + ol)) }
  | t => .ok { frame := .ext t fl sid d }
where
  /-- SETTINGS body → dict (insertion order of first occurrence, last value wins) -/
  go : Nat → Bytes → List (Int × Int) → List (Int × Int)
    | 0, _, acc => acc
    | fuel+1, d, acc =>
      if d.length < 6 then acc else
      let k : Int := rd16 (d.take 2)
      let v : Int := rd32 ((d.drop 2).take 4)
      let acc' := if acc.any (fun kv => kv.1 == k) then acc.map (fun kv => if kv.1 == k then (k, v) else kv)
                  else acc ++ [(k, v)]
      go fuel (d.drop 6) acc'

end H2
