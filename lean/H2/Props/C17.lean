/-
  C17 — arbitrary peer bytes never produce a non-protocol exception.

  In the model every partial Python operation on the receive path (`streams[...]`, `events[0]`, `settings[...]`,
  `assert`, `struct.pack`, hyperframe's parse errors, mixed bytes/str comparisons) is an explicit `.py` result.
  The theorems say that none of them is reachable from `receive_data`, for every byte string, every configuration
  and every state satisfying the invariant `WF` (which `Conn.init` satisfies and `receive_data` preserves).
  The stream table and its side-effect functions enter through facts decided over the *generated* table.
-/
import H2.Proofs.RecvTotal

namespace H2.C17
open H2 H2.Gen H2.Conn

/-- the state the theorems speak about: the connection invariant of the receive path, and a header-block backlog
    that starts with the frame that opened it -/
def Inv (c : Conn) : Prop := WF c ∧ HbOk c.fb.headersBuffer

/-- the harness hands the model the results of the real HPACK decoder for the next call (see Driver.feed); the
    trusted assumption about hpack is that `Decoder.decode(raw=True)` returns pairs of bytes or raises one of the
    exceptions `_decode_headers` catches -/
def feed (c : Conn) (enc : List Bytes) (dec : List DecRes) : Conn :=
  { c with hp := { c.hp with encOracle := enc, decOracle := dec, oracleMiss := false } }

def DecResOk (dec : List DecRes) : Prop :=
  ∀ r ∈ dec, match r with
    | .ok hs => AllBytes hs
    | .py _ => False
    | _ => True

theorem C17_init (cfg : Config) : Inv (Conn.init cfg) := by
  unfold Inv
  refine ⟨⟨⟨?_, ?_, ?_, ?_, ?_⟩, ?_⟩, ?_⟩
  · cases hc : cfg.client <;> simp only [Conn.init, hc] <;> first | exact settingsOk_init_cl | exact settingsOk_init_sl
  · cases hc : cfg.client <;> simp only [Conn.init, hc] <;> first | exact settingsOk_init_cr | exact settingsOk_init_sr
  · cases hc : cfg.client <;> simp [Conn.init, hc, client_init_max_out_frame, server_init_max_out_frame]
  · intro r hr; cases hc : cfg.client <;> simp [Conn.init, hc] at hr
  · cases hc : cfg.client <;> simp only [Conn.init, hc] <;> first | exact ls32_init_cl | exact ls32_init_sl
  · intro _ e he; cases hc : cfg.client <;> simp [Conn.init, hc] at he
  · cases hc : cfg.client <;> simp [Conn.init, hc, FrameBuffer.init, HbOk]

theorem C17_feed (c : Conn) (enc : List Bytes) (dec : List DecRes) (h : Inv c) (hd : DecResOk dec) :
    Inv (feed c enc dec) :=
  ⟨⟨⟨h.1.1.ls, h.1.1.rs, h.1.1.mof, hd, h.1.1.ls32⟩, h.1.2⟩, h.2⟩

/-- **C17**: `receive_data` on any bytes returns events or raises ProtocolError (or a subclass) whose error code
    fits a GOAWAY frame; never anything else.  The invariant holds again afterwards. -/
theorem C17_receive_data (c : Conn) (data : Bytes) (h : Inv c) :
    match receiveData data c with
    | (.ok _, c') => Inv c'
    | (.error e, c') => GoodExc e ∧ Inv c' := by
  have := receiveData_ok data c h.1 h.2
  cases hr : receiveData data c with
  | mk r c' =>
    rw [hr] at this
    cases r with
    | ok evs => exact this
    | error e => exact ⟨this.1, this.2.1, this.2.2⟩

/-- the same as an observation of `step`: the result is never a Python-level exception, and an h2 exception is a
    `ProtocolError` -/
theorem C17_step (c : Conn) (data : Bytes) (h : Inv c) :
    (∀ k, (step c (.recv data)).2.res ≠ .py k) ∧
    (∀ cls code sid, (step c (.recv data)).2.res = .h2 cls code sid → cls.isSub .ProtocolError = true) ∧
    Inv (step c (.recv data)).1 := by
  have hs := C17_receive_data c data h
  simp only [step]
  cases hr : receiveData data c with
  | mk r c' =>
    rw [hr] at hs
    cases r with
    | ok evs => exact ⟨by intro k hk; simp at hk, by intro _ _ _ hk; simp at hk, hs⟩
    | error e =>
      cases e with
      | py k => exact hs.1.elim
      | h2 cls code sid evs =>
        refine ⟨by intro k hk; simp [resOf] at hk, ?_, hs.2⟩
        intro cls' code' sid' hk
        simp only [resOf, Res.h2.injEq] at hk
        rw [← hk.1]; exact hs.1.1

/-- any number of `receive_data` calls, each with whatever the decoder produced for it -/
def recvAll (c : Conn) : List (Bytes × List DecRes) → Conn × List Res
  | [] => (c, [])
  | (d, dec) :: rest =>
    let r := step (feed c [] dec) (.recv d)
    let rr := recvAll r.1 rest
    (rr.1, r.2.res :: rr.2)

theorem C17_any_history (cfg : Config) (inputs : List (Bytes × List DecRes)) (hd : ∀ x ∈ inputs, DecResOk x.2) :
    ∀ r ∈ (recvAll (Conn.init cfg) inputs).2, ∀ k, r ≠ .py k := by
  suffices ∀ c, Inv c → ∀ r ∈ (recvAll c inputs).2, ∀ k, r ≠ .py k from this _ (C17_init cfg)
  induction inputs with
  | nil => intro c _ r hr; simp [recvAll] at hr
  | cons x xs ih =>
    obtain ⟨d, dec⟩ := x
    intro c hc r hr k
    have hfeed := C17_feed c [] dec hc (hd (d, dec) (List.mem_cons_self ..))
    have hs := C17_step (feed c [] dec) d hfeed
    simp only [recvAll, List.mem_cons] at hr
    rcases hr with h1 | h1
    · rw [h1]; exact hs.1 k
    · exact ih (fun y hy => hd y (List.mem_cons_of_mem _ hy)) _ hs.2.2 r h1 k

/-- non-vacuity: a fresh server given a client preface followed by a PING with a 7-byte payload declared as 8 -/
example : Inv (Conn.init { client := false }) := C17_init _

end H2.C17
