/-
  C29 — API misuse is reported only through documented exceptions and emits nothing.

  Proved for every state `c` with `16384 ≤ c.maxOutFrame` (part of the invariant `WF`, which `receive_data`
  preserves: C17) and every argument value, for the public calls
      send_data, end_stream, increment_flow_control_window, ping, reset_stream, close_connection,
      update_settings, advertise_alternative_service, prioritize, acknowledge_received_data,
      data_to_send, clear_outbound_data_buffer, local/remote_flow_control_window, get_next_available_stream_id,
      open_outbound_streams, open_inbound_streams:
  the call returns, or it raises an h2 exception or ValueError, and then the output buffer and the history of
  sent frames are unchanged (`C29_step_partial`).  In particular `_prepare_for_sending`'s AssertionError, the
  StructError of an unserialisable frame and the KeyError of a direct `self.streams[...]` index are unreachable
  in these calls.  The lookup clause is `C29_lookup_*`.

  `send_headers` (with header tuples that are two byte strings or two text strings) and `push_stream` are covered
  separately (`C29_send_headers`, `C29_push_stream`), under the invariant `Inv2` = the receive-path invariant + the
  stream table in order, which is proved to hold in every state reachable from a fresh connection by the covered calls,
  `send_headers`, `push_stream` and `receive_data` (`C29_reachable_invariant`, `C29_every_history`).

  `initiate_connection` and `initiate_upgrade_connection` (HTTP2-Settings value base64) have their own theorems too
  (`C29_initiate_connection`, `C29_initiate_upgrade`), so that `Reachable` is closed under EVERY public call and
  `C29_every_call` states the property for every call in every reachable state.  (`C29_step_partial` keeps its name:
  it is the statement for the covered calls under the bare frame-size premise.)
-/
import H2.Proofs.ApiOk
import H2.Proofs.ApiWF
import H2.Proofs.SendHeaders
import H2.Proofs.PushStream
import H2.Proofs.Initiate
import H2.Props.C17

namespace H2.C29
open H2 H2.Gen H2.Conn

/-- the observable result of a call is a return value, an h2 exception, or ValueError -/
def ResAllowed : Res → Prop
  | .ok _ => True
  | .h2 _ _ _ => True
  | .py k => k = .ValueError

/-- the public calls the theorem below covers -/
def covered : Op → Bool
  | .sendData .. | .endStream .. | .incrementWindow .. | .ping .. | .resetStream .. | .closeConnection ..
  | .updateSettings .. | .altsvc .. | .prioritize .. | .ackData .. | .dataToSend .. | .clearOut | .query .. => true
  | .initiateConnection | .initiateUpgrade .. | .sendHeaders .. | .pushStream .. | .recv .. => false

/-- what C29 says about one step -/
def StepOk (c : Conn) (r : Conn × Obs) : Prop :=
  ResAllowed r.2.res ∧ (r.2.res.isOk = false → r.1.out = c.out ∧ r.1.sent = c.sent)

theorem obs_of_api {α : Type} (f : α → Val) (m : CM α) (c : Conn) (h : ApiOk m c) :
    StepOk c (match m c with | (r, c') => (c', { res := resOf f r })) := by
  unfold ApiOk wp at h
  cases hm : m c with
  | mk r c' =>
    rw [hm] at h
    cases r with
    | ok a => exact ⟨trivial, fun hf => by cases hf⟩
    | error e =>
      simp only at h
      obtain ⟨ha, hos⟩ := h
      have hos' : c'.out = c.out ∧ c'.sent = c.sent := by
        unfold OS at hos; exact ⟨congrArg Prod.fst hos, congrArg Prod.snd hos⟩
      cases e with
      | h2 cls code sid evs => exact ⟨trivial, fun _ => hos'⟩
      | py k => exact ⟨ha, fun _ => hos'⟩

/-- **C29 for the covered calls**: any state whose peer frame-size limit is legal, any arguments. -/
theorem C29_step_partial (c : Conn) (op : Op) (hcov : covered op = true) (hm : 16384 ≤ c.maxOutFrame) :
    StepOk c (step c op) := by
  cases op with
  | initiateConnection => cases hcov
  | initiateUpgrade _ => cases hcov
  | sendHeaders _ _ _ _ _ _ => cases hcov
  | pushStream _ _ _ => cases hcov
  | recv _ => cases hcov
  | sendData sid d es pad => exact obs_of_api _ _ c (api_sendData sid d es pad c)
  | endStream sid => exact obs_of_api _ _ c (api_endStream sid c hm)
  | incrementWindow i sid => exact obs_of_api _ _ c (api_incrementWindow i sid c hm)
  | ping d => exact obs_of_api _ _ c (api_ping d c hm)
  | resetStream sid code => exact obs_of_api _ _ c (api_resetStream sid code c hm)
  | closeConnection code extra last => exact obs_of_api _ _ c (api_closeConnection code extra last c)
  | updateSettings items => exact obs_of_api _ _ c (api_updateSettings items c)
  | altsvc f o sid => exact obs_of_api _ _ c (api_altsvc f o sid c)
  | prioritize sid w d e => exact obs_of_api _ _ c (api_prioritize sid w d e c hm)
  | ackData size sid => exact obs_of_api _ _ c (api_ackData size sid c hm)
  | dataToSend n => exact obs_of_api _ _ c (api_dataToSend n c)
  | clearOut => exact obs_of_api _ _ c (api_clearOut c)
  | query q =>
    cases q with
    | localWindow sid => exact obs_of_api _ _ c (api_localWindow sid c)
    | remoteWindow sid => exact obs_of_api _ _ c (api_remoteWindow sid c)
    | nextStreamId => exact obs_of_api _ _ c (api_nextStreamId c)
    | openOut => exact obs_of_api _ _ c (api_openOut c)
    | openIn => exact obs_of_api _ _ c (api_openIn c)
    | inboundWindow =>
      refine obs_of_api Val.int (do let c ← getS; pure c.inWM.current_window_size) c ?_
      unfold ApiOk; wps

/-- the hypothesis of `C29_step_partial` holds initially and after every `receive_data` call that starts in a
    well-formed state (so it is not vacuous, and not an assumption about the peer) -/
theorem C29_premise_after_recv (c : Conn) (data : Bytes) (h : WF c) (hb : HbOk c.fb.headersBuffer) :
    16384 ≤ (receiveData data c).2.maxOutFrame := by
  have := receiveData_ok data c h hb
  cases hr : receiveData data c with
  | mk r c' =>
    rw [hr] at this
    cases r with
    | ok a => exact this.1.1.mof
    | error e => exact this.2.1.1.mof

/-! ### the premise is an invariant of every history of covered calls and `receive_data` -/

theorem inv_of_keeps {α : Type} (f : α → Val) (m : CM α) (c : Conn) (hk : ApiKeeps m c) (h : C17.Inv c) :
    C17.Inv (match m c with | (r, c') => (c', ({ res := resOf f r } : Obs))).1 := by
  have := hk c.fb ⟨h.1, rfl⟩
  unfold wp at this
  cases hm : m c with
  | mk r c' =>
    rw [hm] at this
    have k : KW c.fb c' := by cases r <;> exact this
    exact ⟨k.1, by rw [k.2]; exact h.2⟩

/-- **every covered call preserves the invariant** (whether it returns or raises) -/
theorem C29_covered_call_keeps_invariant (c : Conn) (op : Op) (hcov : covered op = true) (h : C17.Inv c) :
    C17.Inv (step c op).1 := by
  cases op with
  | initiateConnection => cases hcov
  | initiateUpgrade _ => cases hcov
  | sendHeaders _ _ _ _ _ _ => cases hcov
  | pushStream _ _ _ => cases hcov
  | recv _ => cases hcov
  | sendData sid d es pad => exact inv_of_keeps _ _ c (keeps_apiSendData sid d es pad c) h
  | endStream sid => exact inv_of_keeps _ _ c (keeps_apiEndStream sid c) h
  | incrementWindow i sid => exact inv_of_keeps _ _ c (keeps_apiIncrementWindow i sid c) h
  | ping d => exact inv_of_keeps _ _ c (keeps_ping d c) h
  | resetStream sid code => exact inv_of_keeps _ _ c (keeps_apiResetStream sid code c) h
  | closeConnection code extra last => exact inv_of_keeps _ _ c (keeps_apiCloseConnection code extra last c) h
  | updateSettings items => exact inv_of_keeps _ _ c (keeps_apiUpdateSettings items c) h
  | altsvc f o sid => exact inv_of_keeps _ _ c (keeps_apiAltsvc f o sid c) h
  | prioritize sid w d e => exact inv_of_keeps _ _ c (keeps_apiPrioritize sid w d e c) h
  | ackData size sid => exact inv_of_keeps _ _ c (keeps_apiAckData size sid c) h
  | dataToSend n => exact inv_of_keeps _ _ c (keeps_apiDataToSend n c) h
  | clearOut => exact inv_of_keeps _ _ c (keeps_apiClearOut c) h
  | query q =>
    cases q with
    | localWindow sid => exact inv_of_keeps _ _ c (keeps_apiLocalWindow sid c) h
    | remoteWindow sid => exact inv_of_keeps _ _ c (keeps_apiRemoteWindow sid c) h
    | nextStreamId => exact inv_of_keeps _ _ c (keeps_apiNextStreamId c) h
    | openOut => exact inv_of_keeps _ _ c (keeps_apiOpenOut c) h
    | openIn => exact inv_of_keeps _ _ c (keeps_apiOpenIn c) h
    | inboundWindow =>
      refine inv_of_keeps Val.int (do let c ← getS; pure c.inWM.current_window_size) c ?_ h
      intro fb0 hk; wps; exact hk

/-! ### `send_headers` -/

/-- the invariant of the whole connection: the receive-path invariant plus the stream table in order -/
def Inv2 (c : Conn) : Prop := C17.Inv c ∧ SO c

theorem decOk_afterEncode (hp : Hp) (hs : List Header) (h : DecOk hp) : DecOk (hp.afterEncode hs) := by
  unfold Hp.afterEncode Hp.encode
  cases hp.encOracle <;> exact h

/-- **`send_headers`** with well-typed header tuples, in any state satisfying the invariant and for all other
    arguments: it returns having fed the HPACK encoder exactly once, or it raises an h2 exception / ValueError and then
    the output buffer, the history of sent frames and the compression context are what they were; either way the
    invariant holds afterwards -/
theorem C29_send_headers (c : Conn) (sid : Int) (headers : List Header) (es : Bool) (pw pd : Option Int) (pe : Option Bool)
    (h : Inv2 c) (hwt : WellTyped headers) :
    StepOk c (step c (.sendHeaders sid headers es pw pd pe)) ∧
    Inv2 (step c (.sendHeaders sid headers es pw pd pe)).1 ∧
    ((step c (.sendHeaders sid headers es pw pd pe)).2.res.isOk = true →
        (step c (.sendHeaders sid headers es pw pd pe)).1.hp = c.hp.afterEncode (outList c.cfg headers)) ∧
    ((step c (.sendHeaders sid headers es pw pd pe)).2.res.isOk = false →
        (step c (.sendHeaders sid headers es pw pd pe)).1.hp = c.hp) := by
  have hapi := api_sendHeaders sid headers es pw pd pe c h.1.1 h.2 hwt
  unfold wp at hapi
  simp only [step, runU]
  cases hm : sendHeaders sid headers es pw pd pe c with
  | mk r c' =>
    rw [hm] at hapi
    have inv_of : ∀ (hpok : DecOk c'.hp) (k : Kept c c'), Inv2 c' := by
      intro hpok k
      refine ⟨⟨⟨⟨by rw [k.ls]; exact h.1.1.1.ls, by rw [k.rs]; exact h.1.1.1.rs, by rw [k.mof]; exact h.1.1.1.mof, hpok,
        by rw [k.ls]; exact h.1.1.1.ls32⟩,
        k.ni⟩, by rw [k.fb]; exact h.1.2⟩, k.so⟩
    cases r with
    | ok u =>
      simp only at hapi
      obtain ⟨hhp, k⟩ := hapi
      refine ⟨⟨trivial, fun hf => by cases hf⟩, inv_of (by rw [hhp]; exact decOk_afterEncode _ _ h.1.1.1.dec) k,
        fun _ => hhp, fun hf => by cases hf⟩
    | error e =>
      simp only at hapi
      obtain ⟨hal, hos, hhp, k⟩ := hapi
      have hos' : c'.out = c.out ∧ c'.sent = c.sent := by
        unfold OS at hos; exact ⟨congrArg Prod.fst hos, congrArg Prod.snd hos⟩
      refine ⟨?_, inv_of (by rw [hhp]; exact h.1.1.1.dec) k, fun hf => ?_, fun _ => hhp⟩
      · cases e with
        | h2 cls code sid' evs => exact ⟨trivial, fun _ => hos'⟩
        | py kx => exact ⟨hal, fun _ => hos'⟩
      · cases e <;> cases hf

/-- **`push_stream`**, in any state satisfying the invariant and for all arguments: it returns having fed the HPACK
    encoder exactly once and having appended to the history exactly the PUSH_PROMISE + CONTINUATION frames that carry
    that block (each within the peer's frame size), or it raises an h2 exception and then the output buffer, the history
    of sent frames and the compression context are what they were; either way the invariant holds afterwards — in
    particular the stream object prepared for the promise does not stay behind IDLE -/
theorem C29_push_stream (c : Conn) (sid promised : Int) (headers : List Header) (h : Inv2 c) :
    StepOk c (step c (.pushStream sid promised headers)) ∧
    Inv2 (step c (.pushStream sid promised headers)).1 ∧
    ((step c (.pushStream sid promised headers)).2.res.isOk = true →
        (step c (.pushStream sid promised headers)).1.hp = c.hp.afterEncode (outList c.cfg headers) ∧
        ∃ frames, (step c (.pushStream sid promised headers)).1.sent = c.sent ++ frames ∧
          PushFrames sid promised c.maxOutFrame frames ∧
          (frames.filterMap Frame.fragment?).flatten = c.hp.encoded (outList c.cfg headers)) ∧
    ((step c (.pushStream sid promised headers)).2.res.isOk = false →
        (step c (.pushStream sid promised headers)).1.hp = c.hp) := by
  have hapi := api_pushStream sid promised headers c h.1.1 h.2
  unfold wp at hapi
  simp only [step, runU]
  cases hm : pushStream sid promised headers c with
  | mk r c' =>
    rw [hm] at hapi
    have inv_of : ∀ (hpok : DecOk c'.hp) (k : Kept c c'), Inv2 c' := by
      intro hpok k
      refine ⟨⟨⟨⟨by rw [k.ls]; exact h.1.1.1.ls, by rw [k.rs]; exact h.1.1.1.rs, by rw [k.mof]; exact h.1.1.1.mof, hpok,
        by rw [k.ls]; exact h.1.1.1.ls32⟩,
        k.ni⟩, by rw [k.fb]; exact h.1.2⟩, k.so⟩
    cases r with
    | ok u =>
      simp only [PushStreamOk] at hapi
      obtain ⟨hhp, k, hfr⟩ := hapi
      refine ⟨⟨trivial, fun hf => by cases hf⟩, inv_of (by rw [hhp]; exact decOk_afterEncode _ _ h.1.1.1.dec) k,
        fun _ => ⟨hhp, hfr⟩, fun hf => by cases hf⟩
    | error e =>
      simp only [SendHeadersErr] at hapi
      obtain ⟨hal, hos, hhp, k⟩ := hapi
      have hos' : c'.out = c.out ∧ c'.sent = c.sent := by
        unfold OS at hos; exact ⟨congrArg Prod.fst hos, congrArg Prod.snd hos⟩
      refine ⟨?_, inv_of (by rw [hhp]; exact h.1.1.1.dec) k, fun hf => ?_, fun _ => hhp⟩
      · cases e with
        | h2 cls code sid' evs => exact ⟨trivial, fun _ => hos'⟩
        | py kx => exact ⟨hal, fun _ => hos'⟩
      · cases e <;> cases hf

/-- **`initiate_connection`**, in any state satisfying the invariant: it returns having written the SETTINGS frame of
    the current local settings (never a StructError), or the connection state machine refuses (ProtocolError) and
    nothing is written; the invariant holds afterwards -/
theorem C29_initiate_connection (c : Conn) (h : Inv2 c) :
    StepOk c (step c .initiateConnection) ∧ Inv2 (step c .initiateConnection).1 ∧
    ((step c .initiateConnection).2.res.isOk = true →
        (step c .initiateConnection).1.sent = c.sent ++ [Frame.settings false c.localSettings.items]) := by
  have hapi := api_initiateConnection c h.1.1 h.2
  unfold wp at hapi
  simp only [step, runU]
  cases hm : initiateConnection c with
  | mk r c' =>
    rw [hm] at hapi
    have inv_of : ∀ (hhp : c'.hp = c.hp) (k : Kept c c'), Inv2 c' := by
      intro hhp k
      refine ⟨⟨⟨⟨by rw [k.ls]; exact h.1.1.1.ls, by rw [k.rs]; exact h.1.1.1.rs, by rw [k.mof]; exact h.1.1.1.mof,
        by rw [hhp]; exact h.1.1.1.dec, by rw [k.ls]; exact h.1.1.1.ls32⟩, k.ni⟩, by rw [k.fb]; exact h.1.2⟩, k.so⟩
    cases r with
    | ok u =>
      simp only [InitiateOk] at hapi
      obtain ⟨hhp, k, hsent, _⟩ := hapi
      exact ⟨⟨trivial, fun hf => by cases hf⟩, inv_of hhp k, fun _ => hsent⟩
    | error e =>
      simp only [SendHeadersErr] at hapi
      obtain ⟨hal, hos, hhp, k⟩ := hapi
      have hos' : c'.out = c.out ∧ c'.sent = c.sent := by
        unfold OS at hos; exact ⟨congrArg Prod.fst hos, congrArg Prod.snd hos⟩
      refine ⟨?_, inv_of hhp k, fun hf => ?_⟩
      · cases e with
        | h2 cls code sid' evs => exact ⟨trivial, fun _ => hos'⟩
        | py kx => exact ⟨hal, fun _ => hos'⟩
      · cases e <;> cases hf

/-- the HTTP2-Settings value handed to a server's `initiate_upgrade_connection` is base64 text (what Python's
    `urlsafe_b64decode` does with anything else is not modelled) -/
def HeaderIsBase64 (hdr : Option Bytes) : Prop := ∀ h, hdr = some h → (b64Decode h).isSome = true

/-- **`initiate_upgrade_connection`**, in any state satisfying the invariant, any base64 HTTP2-Settings value: it
    returns, or it raises an h2 exception (a value that is not a SETTINGS payload: ProtocolError; a refused setting:
    InvalidSettingsValueError; stream 1 already used: StreamIDTooLowError; …) and then nothing has been written; the
    invariant holds afterwards -/
theorem C29_initiate_upgrade (c : Conn) (hdr : Option Bytes) (h : Inv2 c) (hb : HeaderIsBase64 hdr) :
    StepOk c (step c (.initiateUpgrade hdr)) ∧ Inv2 (step c (.initiateUpgrade hdr)).1 := by
  have hapi := api_initiateUpgrade hdr c h.1.1 h.2 hb
  unfold wp at hapi
  simp only [step]
  cases hm : initiateUpgradeConnection (fun items => do let _ ← receiveSettingsFrame false items; pure ()) hdr c with
  | mk r c' =>
    rw [hm] at hapi
    cases r with
    | ok u =>
      simp only [UpgradeOk] at hapi
      obtain ⟨hw, hs, hfb⟩ := hapi
      exact ⟨⟨trivial, fun hf => by cases hf⟩, ⟨hw, by rw [hfb]; exact h.1.2⟩, hs⟩
    | error e =>
      simp only [UpgradeErr] at hapi
      obtain ⟨hal, hos, hw, hs, hfb⟩ := hapi
      have hos' : c'.out = c.out ∧ c'.sent = c.sent := by
        unfold OS at hos; exact ⟨congrArg Prod.fst hos, congrArg Prod.snd hos⟩
      refine ⟨?_, ⟨hw, by rw [hfb]; exact h.1.2⟩, hs⟩
      cases e with
      | h2 cls code sid' evs => exact ⟨trivial, fun _ => hos'⟩
      | py kx => exact ⟨hal, fun _ => hos'⟩

/-! ### every history -/

theorem so_of_keeps {α : Type} (f : α → Val) (m : CM α) (c : Conn) (hk : KeepsSO m c) (h : SO c) :
    SO (match m c with | (r, c') => (c', ({ res := resOf f r } : Obs))).1 := by
  have := hk h
  unfold wp at this
  cases hm : m c with
  | mk r c' =>
    rw [hm] at this
    cases r <;> exact this

theorem C29_covered_call_keeps_streams (c : Conn) (op : Op) (hcov : covered op = true) (h : SO c) : SO (step c op).1 := by
  cases op with
  | initiateConnection => cases hcov
  | initiateUpgrade _ => cases hcov
  | sendHeaders _ _ _ _ _ _ => cases hcov
  | pushStream _ _ _ => cases hcov
  | recv _ => cases hcov
  | sendData sid d es pad => exact so_of_keeps _ _ c (so_apiSendData sid d es pad c) h
  | endStream sid => exact so_of_keeps _ _ c (so_apiEndStream sid c) h
  | incrementWindow i sid => exact so_of_keeps _ _ c (so_apiIncrementWindow i sid c) h
  | ping d => exact so_of_keeps _ _ c (so_apiPing d c) h
  | resetStream sid code => exact so_of_keeps _ _ c (so_apiResetStream sid code c) h
  | closeConnection code extra last => exact so_of_keeps _ _ c (so_apiCloseConnection code extra last c) h
  | updateSettings items => exact so_of_keeps _ _ c (so_apiUpdateSettings items c) h
  | altsvc f o sid => exact so_of_keeps _ _ c (so_apiAltsvc f o sid c) h
  | prioritize sid w d e => exact so_of_keeps _ _ c (so_apiPrioritize sid w d e c) h
  | ackData size sid => exact so_of_keeps _ _ c (so_apiAckData size sid c) h
  | dataToSend n => exact so_of_keeps _ _ c (so_apiDataToSend n c) h
  | clearOut => exact so_of_keeps _ _ c (so_apiClearOut c) h
  | query q =>
    cases q with
    | localWindow sid => exact so_of_keeps _ _ c (so_apiLocalWindow sid c) h
    | remoteWindow sid => exact so_of_keeps _ _ c (so_apiRemoteWindow sid c) h
    | nextStreamId => exact so_of_keeps _ _ c (so_apiNextStreamId c) h
    | openOut => exact so_of_keeps _ _ c (so_apiOpenOut c) h
    | openIn => exact so_of_keeps _ _ c (so_apiOpenIn c) h
    | inboundWindow =>
      refine so_of_keeps Val.int (do let c ← getS; pure c.inWM.current_window_size) c ?_ h
      intro hk; wps; exact hk

/-- the arguments of a public call are well-typed: header tuples are two byte strings or two text strings, a server's
    HTTP2-Settings value is base64; `receive_data` is not a user call in C29's sense (a failing `receive_data` does
    write: the GOAWAY) -/
def UserCall : Op → Prop
  | .recv _ => False
  | .sendHeaders _ hs _ _ _ _ => WellTyped hs
  | .initiateUpgrade hdr => HeaderIsBase64 hdr
  | _ => True

/-- **every public call, any state satisfying the invariant**: the call returns, or raises an h2 exception / ValueError
    having written nothing; the invariant holds afterwards -/
theorem C29_call (c : Conn) (op : Op) (hop : UserCall op) (h : Inv2 c) :
    StepOk c (step c op) ∧ Inv2 (step c op).1 := by
  by_cases hcov : covered op = true
  · exact ⟨C29_step_partial c op hcov h.1.1.1.mof,
      C29_covered_call_keeps_invariant c op hcov h.1, C29_covered_call_keeps_streams c op hcov h.2⟩
  · cases op with
    | initiateConnection => have := C29_initiate_connection c h; exact ⟨this.1, this.2.1⟩
    | initiateUpgrade hdr => exact C29_initiate_upgrade c hdr h hop
    | sendHeaders sid hs es pw pd pe => have := C29_send_headers c sid hs es pw pd pe h hop; exact ⟨this.1, this.2.1⟩
    | pushStream sid p hs => have := C29_push_stream c sid p hs h; exact ⟨this.1, this.2.1⟩
    | recv _ => exact hop.elim
    | _ => exact absurd rfl hcov

/-- the states reachable from a fresh connection by public calls with well-typed arguments (`UserCall`) and
    `receive_data` calls (each with whatever well-typed results the HPACK decoder produces for it) -/
inductive Reachable (cfg : Config) : Conn → Prop
  | init : Reachable cfg (Conn.init cfg)
  | call (c : Conn) (op : Op) : Reachable cfg c → UserCall op → Reachable cfg (step c op).1
  | recv (c : Conn) (d : Bytes) (dec : List DecRes) : Reachable cfg c → C17.DecResOk dec →
      Reachable cfg (step (C17.feed c [] dec) (.recv d)).1

theorem C29_reachable_invariant (cfg : Config) (c : Conn) (h : Reachable cfg c) : Inv2 c := by
  induction h with
  | init => exact ⟨C17.C17_init cfg, so_init cfg⟩
  | call c op _ hop ih => exact (C29_call c op hop ih).2
  | recv c d dec _ hd ih =>
    refine ⟨(C17.C17_step _ d (C17.C17_feed c [] dec ih.1 hd)).2.2, ?_⟩
    have hso : SO (C17.feed c [] dec) := ih.2
    have := receiveData_so d (C17.feed c [] dec) hso
    simp only [step]
    cases hr : receiveData d (C17.feed c [] dec) with
    | mk r c' =>
      rw [hr] at this
      cases r <;> exact this

/-- **C29 in every reachable state, for every public call**: whatever calls (with well-typed arguments) and whatever
    bytes came before, the next call returns, or raises an h2 exception / ValueError and then the output buffer and the
    history of sent frames are what they were -/
theorem C29_every_call (cfg : Config) (c : Conn) (h : Reachable cfg c) (op : Op) (hop : UserCall op) :
    StepOk c (step c op) :=
  (C29_call c op hop (C29_reachable_invariant cfg c h)).1

/-- **C29, C13 and C17 along every such history**: in every reachable state a covered call, `send_headers` with
    well-typed header tuples, and `push_stream` returns or raises an allowed exception having written nothing (and, for
    the two header-sending calls, having left the compression context alone); `receive_data` never ends in a
    Python-level exception -/
theorem C29_every_history (cfg : Config) (c : Conn) (h : Reachable cfg c) :
    (∀ op, covered op = true → StepOk c (step c op)) ∧
    (∀ sid hs es pw pd pe, WellTyped hs →
        StepOk c (step c (.sendHeaders sid hs es pw pd pe)) ∧
        ((step c (.sendHeaders sid hs es pw pd pe)).2.res.isOk = false → (step c (.sendHeaders sid hs es pw pd pe)).1.hp = c.hp)) ∧
    (∀ sid promised hs,
        StepOk c (step c (.pushStream sid promised hs)) ∧
        ((step c (.pushStream sid promised hs)).2.res.isOk = false → (step c (.pushStream sid promised hs)).1.hp = c.hp)) ∧
    (∀ d dec, C17.DecResOk dec → ∀ k, (step (C17.feed c [] dec) (.recv d)).2.res ≠ .py k) := by
  have hi := C29_reachable_invariant cfg c h
  refine ⟨fun op hcov => C29_step_partial c op hcov hi.1.1.1.mof, ?_, ?_,
         fun d dec hd => (C17.C17_step _ d (C17.C17_feed c [] dec hi.1 hd)).1⟩
  · intro sid hs es pw pd pe hwt
    have := C29_send_headers c sid hs es pw pd pe hi hwt
    exact ⟨this.1, this.2.2.2⟩
  · intro sid promised hs
    have := C29_push_stream c sid promised hs hi
    exact ⟨this.1, this.2.2.2⟩

/-- non-vacuity: a server that upgraded with a SETTINGS payload, got a request, promised a stream and answered is a
    reachable state -/
example : Reachable { client := false }
    (step (step (step (Conn.init { client := false }) (.initiateUpgrade (some [65, 65, 77, 65, 65, 65, 66, 107]))).1
      (.pushStream 1 2 [])).1 (.ping [0, 0, 0, 0, 0, 0, 0, 0])).1 :=
  .call _ _ (.call _ _ (.call _ _ .init (fun h hh => by injection hh with hh; subst hh; decide)) trivial) trivial

/-! ### the lookup clause: closed-and-forgotten → StreamClosedError, never-used higher id → NoSuchStreamError -/

/-- `lookupExc` is NoSuchStreamError exactly for ids above the highest id used on that side, else StreamClosedError -/
theorem C29_lookup_kinds (c : Conn) (sid : Int) :
    (sid > (if streamIdIsOutbound c sid then c.highestOut else c.highestIn) →
        (lookupExc c sid).isInstance .NoSuchStreamError = true ∧ (lookupExc c sid).isInstance .StreamClosedError = false) ∧
    (¬ sid > (if streamIdIsOutbound c sid then c.highestOut else c.highestIn) →
        (lookupExc c sid).isInstance .StreamClosedError = true) := by
  unfold lookupExc
  constructor
  · intro h; rw [if_pos h]; exact ⟨rfl, rfl⟩
  · intro h; rw [if_neg h]; rfl

/-- calls that act on an existing stream, on an id that is not in the table, when the connection state admits the
    call and the arguments pass their range checks: exactly `lookupExc`, nothing written -/
theorem C29_lookup_endStream (c : Conn) (sid : Int) (h : hasStream c sid = false) (t : ConnectionState)
    (hc : connTable c.cstate .SEND_DATA = some t) : Refused (endStream sid) c sid :=
  refused_endStream c sid h t hc

theorem C29_lookup_resetStream (c : Conn) (sid code : Int) (h : hasStream c sid = false) (t : ConnectionState)
    (hcode : 0 ≤ code ∧ code ≤ 4294967295) (hc : connTable c.cstate .SEND_RST_STREAM = some t) :
    Refused (resetStream sid code) c sid :=
  refused_resetStream c sid code h t hcode hc

theorem C29_lookup_incrementWindow (c : Conn) (sid incr : Int) (h : hasStream c sid = false) (t : ConnectionState)
    (hi : 1 ≤ incr ∧ incr ≤ MAX_WINDOW_INCREMENT) (hc : connTable c.cstate .SEND_WINDOW_UPDATE = some t) :
    Refused (incrementFlowControlWindow incr (some sid)) c sid :=
  refused_incrementWindow c sid incr h t hi hc

theorem C29_lookup_sendData (c : Conn) (sid : Int) (data : Bytes) (es : Bool) (pad : Option Int)
    (h : hasStream c sid = false) (hp : ∀ p, pad = some p → 0 ≤ p ∧ p ≤ 255) :
    Refused (sendData sid data es pad) c sid :=
  refused_sendData c sid data es pad h hp

theorem C29_lookup_localWindow (c : Conn) (sid : Int) (h : hasStream c sid = false) :
    Refused (localFlowControlWindow sid) c sid :=
  refused_localWindow c sid h

/-- only `acknowledge_received_data` ignores a forgotten stream: with a legal size it returns normally -/
theorem C29_ackData_forgotten (c : Conn) (size sid : Int) (hm : 16384 ≤ c.maxOutFrame) :
    ApiOk (acknowledgeReceivedData size sid) c := api_ackData size sid c hm

/-- non-vacuity: the initial client state meets the premises, and stream 7 is a never-used higher id there -/
example : 16384 ≤ (Conn.init { client := true }).maxOutFrame ∧ hasStream (Conn.init { client := true }) 7 = false ∧
    (lookupExc (Conn.init { client := true }) 7).isInstance .NoSuchStreamError = true := by decide

end H2.C29
