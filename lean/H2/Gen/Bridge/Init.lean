/- checked on every run: the function regenerated from /repo is the reference definition -/
import H2.Gen.WindowsRaw
import H2.Gen.BridgeTac
namespace H2.Bridge
open H2.Gen

theorem init_eq (m : Int) : GenRaw.WindowManager.init m = WindowManager.init m := by
  bridge GenRaw.WindowManager.init WindowManager.init

end H2.Bridge
