"""Directed histories that complement the random profiles.

`corpus/<pid>/*.json` holds minimised histories kept from earlier rounds: defects that were found (they run first,
every time, on the real library and on the model, under the property's oracle and projection) and histories on
which an oracle was once wrong (they must stay silent).  A corpus file is {'ops': [...], 'note': ..., and
optionally 'expect_clause': <oracle clause this history must still raise, for recorded known findings>}.
"""
import glob
import json
import os

HERE = os.path.dirname(os.path.abspath(__file__))


def run_corpus(pid, model):
    from corr import dec_json, replay
    from oracles import ORACLES
    import checklib as L
    oracle = ORACLES.get(pid)
    fails, mism, n, ops_n = [], [], 0, 0
    for path in sorted(glob.glob(os.path.join(HERE, 'corpus', pid, '*.json'))):
        d = dec_json(json.load(open(path)))
        ops = d['ops']
        r = replay(ops, model)
        n += 1
        ops_n += len(ops)
        if model is not None:
            for idx, (op, ol, ml, obs) in enumerate(r.log):
                if ml is not None and obs is not None and not r.unmodelled_at(idx) and L.project(pid, ol) != L.project(pid, ml):
                    mism.append({'seed': 'corpus', 'k': os.path.basename(path), 'idx': idx, 'ops': ops[:idx + 1]})
                    break
        fs = oracle(r) if oracle else []
        if fs:
            f = min(fs, key=lambda x: x['idx'])
            fails.append({'seed': 'corpus', 'k': os.path.basename(path), 'failure': f, 'ops': ops[:f['idx'] + 1]})
        elif d.get('expect_clause'):
            # a recorded known finding that the oracle no longer sees: the record and the code have drifted apart.
            # Not a violation of the property; reported in the evidence so that the entry gets reviewed.
            pass
    return {'failures': fails, 'mismatches': mism, 'coverage': {'corpus_programs': n, 'corpus_ops': ops_n}}


def _pool_programs(seed, n):
    """a mixed bag: a few histories of every directed generator of every property (state zoo, reset races, closed
    connections, bodies, settings walks, id reuse, priority shapes, origins, refused calls, floods, limits, chunked
    traffic, upgrades, block boundaries).  Every check runs the bag under its own oracle and projection: a state that
    one property's generator reaches is a state every property has to hold in."""
    import itertools
    gens = [lambda s_, k_: _zoo_programs(s_, k_, {}), _reset_race_programs, _closed_conn_programs,
            lambda s_, k_: _closed_conn_programs(s_, k_, close=False), _body_programs, _settings_walk_programs, _own_settings_traffic_programs,
            _id_reuse_programs,
            _priority_shape_programs, _altsvc_origin_programs, _altsvc_send_programs, _refused_headers_programs, _orphan_id_programs, _refused_push_programs, _ping_flood_programs,
            _after_limit_programs, _chunked_traffic_programs, _upgrade_value_programs, _boundary_programs]
    per = max(1, n // len(gens))
    for gi, g in enumerate(gens):
        try:
            it = g(seed * 131 + 17 + gi, per)
        except TypeError:
            continue
        for key, ops in itertools.islice(it, per):
            yield 'pool-%d-%s' % (gi, key), ops


# properties whose oracle reads annotations or whole-run structure that only their own programs carry
_NO_POOL = {'C21', 'C28'}


def run(pid, seed, tier, model, deadline):
    res = run_corpus(pid, model)
    f = globals().get('special_' + pid)
    if f:
        more = f(seed, tier, model, deadline) or {}
        res['failures'] += more.get('failures', [])
        res['mismatches'] += more.get('mismatches', [])
        res['coverage'].update(more.get('coverage') or {})
    if pid not in _NO_POOL:
        from oracles import ORACLES
        more = _run_directed(pid, ORACLES.get(pid), _pool_programs, 'pool')(seed, tier, model, deadline, 160, 1600)
        res['failures'] += more.get('failures', [])
        res['mismatches'] += more.get('mismatches', [])
        res['coverage'].update(more.get('coverage') or {})
    return res


def rechunk(ops, rng, p_split=0.7):
    """the same history with deliveries cut into pieces: recv(d) -> recv(d1) recv(d2) ..., xfer(all) -> xfer(n1) ... xfer(all)"""
    out = []
    for op in ops:
        if op['op'] == 'recv' and len(op['data']) >= 1 and rng.random() < p_split:
            d = op['data']
            k = rng.choice([1, 1, 2, 3, 5]) if len(d) > 1 else 1
            if rng.random() < 0.1:
                cuts = list(range(1, len(d)))[:40]            # byte by byte at the front
            else:
                cuts = sorted(rng.randrange(0, len(d) + 1) for _ in range(k))
            prev = 0
            for c in cuts:
                out.append(dict(op, data=d[prev:c]))
                prev = c
            out.append(dict(op, data=d[prev:]))
        elif op['op'] == 'xfer' and op.get('n') is None and rng.random() < p_split:
            for _ in range(rng.choice([1, 1, 2, 3])):
                out.append(dict(op, n=rng.choice([0, 1, 3, 8, 9, 10, 17, 24, 30, 50, 100, 1000, 16393])))
            out.append(op)
        else:
            out.append(op)
    return out


def special_C21(seed, tier, model, deadline):
    """programs of the C21 profile, re-delivered in random chunkings (on the real library and on the model), judged by
    the metamorphic oracle against delivery in one piece"""
    import random
    import time
    from corr import gen_program, replay
    from oracles import oracle_C21
    from profiles import PROFILES
    import checklib as L
    n = {'quick': 120, 'thorough': 2500}.get(tier, 120)
    fails, mism, progs, nops, groups = [], [], 0, 0, 0
    profs = PROFILES['C21']
    for k in range(n):
        if time.time() > deadline:
            break
        rng = random.Random((seed * 7368787 + k) & 0xFFFFFFFF)
        p = profs[k % len(profs)]
        r0 = gen_program(rng, None, mode=p['mode'], steps=p['steps'], weights=p.get('weights'), invalid=p.get('invalid', 0.15),
                         stop_on_mismatch=False)
        ops = rechunk(r0.ops, rng)
        r = replay(ops, model)
        progs += 1
        nops += len(ops)
        groups += len(ops) - len(r0.ops)
        if model is not None:
            for idx, (op, ol, ml, obs) in enumerate(r.log):
                if ml is not None and obs is not None and not r.unmodelled_at(idx) and L.project('C21', ol) != L.project('C21', ml):
                    mism.append({'seed': seed, 'k': 'rechunk-%d' % k, 'idx': idx, 'ops': ops[:idx + 1]})
                    break
        fs = oracle_C21(r)
        if fs:
            f = min(fs, key=lambda x: x['idx'])
            fails.append({'seed': seed, 'k': 'rechunk-%d' % k, 'failure': f, 'ops': ops[:f['idx'] + 1]})
    # runs of like frames in one delivery (anything the library might count per call rather than per connection): the same
    # run cut at frame boundaries and elsewhere
    runs = 0
    for k, (key, base) in enumerate(_frame_run_programs(seed, {'quick': 60, 'thorough': 1200}.get(tier, 60))):
        if time.time() > deadline:
            break
        rng = random.Random((seed * 15485863 + k) & 0xFFFFFFFF)
        ops = rechunk(base, rng, p_split=1.0)
        r = replay(ops, model)
        progs += 1
        runs += 1
        nops += len(ops)
        groups += len(ops) - len(base)
        if model is not None:
            for idx, (op, ol, ml, obs) in enumerate(r.log):
                if ml is not None and obs is not None and not r.unmodelled_at(idx) and L.project('C21', ol) != L.project('C21', ml):
                    mism.append({'seed': seed, 'k': key, 'idx': idx, 'ops': ops[:idx + 1]})
                    break
        fs = oracle_C21(r)
        if fs:
            f = min(fs, key=lambda x: x['idx'])
            fails.append({'seed': seed, 'k': key, 'failure': f, 'ops': ops[:f['idx'] + 1]})
    return {'failures': fails, 'mismatches': mism,
            'coverage': {'rechunked_programs': progs, 'rechunked_ops': nops, 'extra_chunks': groups, 'frame_run_programs': runs}}


def _frame_run_programs(seed, n):
    """one delivery that holds a run of 2..14 frames of one kind (empty DATA, small DATA, padded empty DATA, PING, PING
    ACK, empty SETTINGS, SETTINGS ACK, WINDOW_UPDATE, PRIORITY, RST_STREAM for a finished stream, unknown frame types) on
    a connection with a live stream, sometimes with another frame in the middle of the run"""
    import random
    import wire
    blk = wire.hpack_literal_block
    REQ = [(b':method', b'POST', False), (b':scheme', b'https', False), (b':path', b'/', False), (b':authority', b'x', False)]
    REQB = blk([(h[0], h[1]) for h in REQ])
    for k in range(n):
        rng = random.Random((seed * 86028121 + k) & 0xFFFFFFFF)
        client = rng.random() < 0.5
        ops = [{'op': 'new', 'c': 0, 'client': client, 'vo': 1, 'no': 1, 'vi': 1, 'ni': 1, 'enc': None},
               {'op': 'initiate_connection', 'c': 0},
               {'op': 'recv', 'c': 0, 'data': (b'' if client else wire.PREFACE) + wire.settings_frame([]) + wire.settings_frame(ack=True)}]
        if client:
            ops.append({'op': 'send_headers', 'c': 0, 'sid': 1, 'headers': REQ, 'es': rng.random() < 0.5})
            ops.append({'op': 'recv', 'c': 0, 'data': wire.headers_frames(1, blk([(b':status', b'200')]))})
        else:
            ops.append({'op': 'recv', 'c': 0, 'data': wire.headers_frames(1, REQB)})
        kind = rng.choice(['empty-data', 'empty-data', 'empty-data', 'data', 'padded-empty', 'ping', 'ping-ack', 'settings', 'settings-ack',
                           'window', 'priority', 'rst-gone', 'unknown'])
        one = {'empty-data': lambda j: wire.data_frame(1, b''), 'data': lambda j: wire.data_frame(1, b'x'),
               'padded-empty': lambda j: wire.data_frame(1, b'', pad=rng.choice([0, 3])),
               'ping': lambda j: wire.ping(bytes([j]) * 8), 'ping-ack': lambda j: wire.ping(bytes([j]) * 8, ack=True),
               'settings': lambda j: wire.settings_frame([]), 'settings-ack': lambda j: wire.settings_frame(ack=True),
               'window': lambda j: wire.window_update(rng.choice([0, 1]), 1), 'priority': lambda j: wire.priority(rng.choice([1, 5, 9]), 0, 16),
               'rst-gone': lambda j: wire.rst_stream(1, 0), 'unknown': lambda j: wire.frame(0x42, 0, 0, b'?')}[kind]
        count = rng.choice([2, 3, 4, 5, 5, 6, 6, 7, 9, 11, 14])
        frames = [one(j) for j in range(count)]
        if rng.random() < 0.3:
            frames.insert(rng.randrange(0, count), wire.ping(b'between!'))
        if rng.random() < 0.3:
            frames.append(wire.data_frame(1, b'last', end_stream=True))
        ops.append({'op': 'recv', 'c': 0, 'data': b''.join(frames)})
        ops.append({'op': 'data_to_send', 'c': 0, 'amount': None})
        yield 'run-%d-%s-%d' % (k, kind, count), ops


def special_C10(seed, tier, model, deadline):
    """limit pressure: a small acknowledged MAX_CONCURRENT_STREAMS, peers opening / closing streams around it while
    further SETTINGS frames (of either side) are in flight"""
    import random
    import time
    import wire
    from corr import replay
    from oracles import oracle_C10
    import checklib as L
    REQ = [(b':method', b'GET', False), (b':scheme', b'https', False), (b':path', b'/', False), (b':authority', b'x', False)]
    blk = wire.hpack_literal_block
    n = {'quick': 150, 'thorough': 3000}.get(tier, 150)
    fails, mism, progs, nops = [], [], 0, 0
    for k in range(n):
        if time.time() > deadline:
            break
        rng = random.Random((seed * 9176 + k) & 0xFFFFFFFF)
        lim = rng.choice([0, 1, 1, 2, 3])
        ops = [{'op': 'new', 'c': 0, 'client': False, 'vo': 1, 'no': 1, 'vi': 1, 'ni': 1, 'enc': None},
               {'op': 'initiate_connection', 'c': 0},
               {'op': 'recv', 'c': 0, 'data': wire.PREFACE + wire.settings_frame([]) + wire.settings_frame(ack=True)},
               {'op': 'update_settings', 'c': 0, 'settings': [(3, lim)]},
               {'op': 'recv', 'c': 0, 'data': wire.settings_frame(ack=True)}]
        nxt, live, unacked = 1, [], 0
        rng2 = random.Random((seed * 31337 + k * 7 + 1) & 0xFFFFFFFF)
        if rng2.random() < 0.3:
            # recipe: a change and its reversal in flight together (the second value is the one in force), both
            # acknowledged, then the peer opens as many streams as the limit in force allows
            big = rng2.choice([2, 3, 5])
            ops[3] = {'op': 'update_settings', 'c': 0, 'settings': [(3, big)]}
            ops += [{'op': 'update_settings', 'c': 0, 'settings': [(3, rng2.choice([0, 1]))]},
                    {'op': 'update_settings', 'c': 0, 'settings': [(3, big)]},
                    {'op': 'recv', 'c': 0, 'data': wire.settings_frame(ack=True)},
                    {'op': 'recv', 'c': 0, 'data': wire.settings_frame(ack=True)}]
            for _ in range(big):
                ops.append({'op': 'recv', 'c': 0, 'data': wire.headers_frames(nxt, blk(REQ), end_stream=False)})
                nxt += 2
            lim = big
        for _ in range(rng.randrange(6, 22)):
            r = rng.random()
            if r < 0.4:
                ops.append({'op': 'recv', 'c': 0, 'data': wire.headers_frames(nxt, blk(REQ), end_stream=rng.random() < 0.25)})
                live.append(nxt)
                nxt += 2
            elif r < 0.55 and live:
                sid = live.pop(rng.randrange(len(live)))
                ops.append({'op': 'recv', 'c': 0, 'data': wire.rst_stream(sid, 8) if rng.random() < 0.5 else wire.data_frame(sid, b'', True, None)})
            elif r < 0.75:
                kv = rng.choice([(3, lim), (3, lim), (3, rng.choice([0, 1, 2, 5, 100])), (3, rng.choice([0, 1, 2, 5, 100])), (4, 70000), (5, 16385), (1, 100), (16, 1)])
                ops.append({'op': 'update_settings', 'c': 0, 'settings': [kv]})
                unacked += 1
            elif r < 0.9 and unacked:
                ops.append({'op': 'recv', 'c': 0, 'data': wire.settings_frame(ack=True)})
                unacked -= 1
            else:
                ops.append({'op': 'q', 'c': 0, 'what': 'open_in'})
        r = replay(ops, model)
        progs += 1
        nops += len(ops)
        if model is not None:
            for idx, (op, ol, ml, obs) in enumerate(r.log):
                if ml is not None and obs is not None and not r.unmodelled_at(idx) and L.project('C10', ol) != L.project('C10', ml):
                    mism.append({'seed': seed, 'k': 'limit-%d' % k, 'idx': idx, 'ops': ops[:idx + 1]})
                    break
        fs = oracle_C10(r)
        if fs:
            f = min(fs, key=lambda x: x['idx'])
            fails.append({'seed': seed, 'k': 'limit-%d' % k, 'failure': f, 'ops': ops[:f['idx'] + 1]})
    return {'failures': fails, 'mismatches': mism, 'coverage': {'limit_pressure_programs': progs, 'limit_pressure_ops': nops}}


def special_C22(seed, tier, model, deadline):
    """push pressure on a client: ENABLE_PUSH on or off (acknowledged or still in flight), parents that are open, ended,
    reset locally / by the peer, purged from the table or never opened, promised ids of every kind"""
    import random
    import time
    import wire
    from corr import replay
    from oracles import oracle_C22
    import checklib as L
    REQ = [(b':method', b'GET', False), (b':scheme', b'https', False), (b':path', b'/', False), (b':authority', b'x', False)]
    RESP = [(b':status', b'200', False)]
    blk = wire.hpack_literal_block
    n = {'quick': 120, 'thorough': 2500}.get(tier, 120)
    fails, mism, progs, nops = [], [], 0, 0
    for k in range(n):
        if time.time() > deadline:
            break
        rng = random.Random((seed * 52361 + k) & 0xFFFFFFFF)
        ops = [{'op': 'new', 'c': 0, 'client': True, 'vo': 1, 'no': 1, 'vi': 1, 'ni': 1, 'enc': None},
               {'op': 'initiate_connection', 'c': 0},
               {'op': 'recv', 'c': 0, 'data': wire.settings_frame([]) + wire.settings_frame(ack=True)}]
        if rng.random() < 0.6:
            ops.append({'op': 'update_settings', 'c': 0, 'settings': [(2, 0)]})
            if rng.random() < 0.8:
                ops.append({'op': 'recv', 'c': 0, 'data': wire.settings_frame(ack=True)})
        nxt, mine, promised_next = 1, [], 2
        for _ in range(rng.randrange(5, 16)):
            r = rng.random()
            if r < 0.3 or not mine:
                ops.append({'op': 'send_headers', 'c': 0, 'sid': nxt, 'headers': REQ, 'es': rng.random() < 0.6})
                mine.append(nxt)
                nxt += 2
            elif r < 0.45:
                ops.append({'op': 'reset_stream', 'c': 0, 'sid': rng.choice(mine), 'code': 8})
            elif r < 0.55:
                sid = rng.choice(mine)
                ops.append({'op': 'recv', 'c': 0, 'data': rng.choice([wire.rst_stream(sid, 2), wire.headers_frames(sid, blk(RESP), end_stream=True)])})
            elif r < 0.9:
                parent = rng.choice(mine + [rng.choice(mine)] * 2 + [nxt, 2, promised_next - 2 if promised_next > 2 else 4])
                pid = promised_next if rng.random() < 0.85 else rng.choice([0, 1, 2, promised_next + 1, 2**31])
                ops.append({'op': 'recv', 'c': 0, 'data': wire.push_promise_frames(parent, pid, blk(REQ))})
                if pid == promised_next:
                    promised_next += 2
            else:
                ops.append({'op': 'q', 'c': 0, 'what': rng.choice(['open_in', 'open_out'])})
        r = replay(ops, model)
        progs += 1
        nops += len(ops)
        if model is not None:
            for idx, (op, ol, ml, obs) in enumerate(r.log):
                if ml is not None and obs is not None and not r.unmodelled_at(idx) and L.project('C22', ol) != L.project('C22', ml):
                    mism.append({'seed': seed, 'k': 'push-%d' % k, 'idx': idx, 'ops': ops[:idx + 1]})
                    break
        fs = oracle_C22(r)
        if fs:
            f = min(fs, key=lambda x: x['idx'])
            fails.append({'seed': seed, 'k': 'push-%d' % k, 'failure': f, 'ops': ops[:f['idx'] + 1]})
    return {'failures': fails, 'mismatches': mism, 'coverage': {'push_pressure_programs': progs, 'push_pressure_ops': nops}}


def special_C28(seed, tier, model, deadline):
    """determinism: the same programs are executed in separate interpreter processes under different PYTHONHASHSEED
    values (and at different wall-clock times); every observation line (result, events, appended bytes, state peeks)
    must be byte-identical to the in-process run, which in turn is compared with the model"""
    import random
    import subprocess
    import time
    from corr import gen_program, enc_json
    from profiles import PROFILES
    n = {'quick': 60, 'thorough': 1200}.get(tier, 60)
    hashseeds = {'quick': ['0', '1', '4242'], 'thorough': ['0', '1', '2', '3', '77', '4242', 'random', 'random']}.get(tier, ['0', '1'])
    progs, ref = [], []
    profs = PROFILES['C28']
    for k in range(n):
        if time.time() > deadline:
            break
        rng = random.Random((seed * 40503 + k) & 0xFFFFFFFF)
        p = profs[k % len(profs)]
        r = gen_program(rng, None, mode=p['mode'], steps=p['steps'], weights=p.get('weights'), invalid=p.get('invalid', 0.15),
                        stop_on_mismatch=False)
        progs.append(r.ops)
        ref.append([ol for op, ol, ml, obs in r.log])
    # directed: messages with repeated / odd content-length fields and status values (anything picked out of a set or
    # dict of received values would show here)
    from corr import replay as _replay
    for key, ops in _body_programs(seed, {'quick': 80, 'thorough': 1500}.get(tier, 80)):
        if time.time() > deadline:
            break
        r = _replay(ops, None)
        progs.append(ops)
        ref.append([ol for op, ol, ml, obs in r.log])
    payload = ''.join(json.dumps(enc_json(ops)) + '\n' for ops in progs).encode()
    fails = []
    runs = 0
    for hs in hashseeds:
        env = dict(os.environ, PYTHONHASHSEED=hs, H2_SRC=os.environ.get('H2_SRC', '/repo/src'))
        pr = subprocess.run(['/venv/bin/python', os.path.join(HERE, 'detrun.py')], input=payload, stdout=subprocess.PIPE,
                            stderr=subprocess.PIPE, env=env, timeout=1200)
        lines = pr.stdout.decode().splitlines()
        runs += 1
        if pr.returncode != 0 or len(lines) != len(progs):
            fails.append({'seed': seed, 'k': 'hashseed-%s' % hs, 'failure': {'clause': 'subprocess-run-failed', 'idx': 0,
                          'detail': {'rc': pr.returncode, 'stderr': pr.stderr.decode()[-300:]}}, 'ops': progs[0] if progs else []})
            continue
        for j, line in enumerate(lines):
            got = json.loads(line)
            if got != ref[j]:
                idx = next((t for t in range(min(len(got), len(ref[j]))) if got[t] != ref[j][t]), 0)
                fails.append({'seed': seed, 'k': 'hashseed-%s-prog-%d' % (hs, j),
                              'failure': {'clause': 'output-depends-on-hash-seed-or-process', 'idx': idx,
                                          'detail': {'hashseed': hs}}, 'ops': progs[j][:idx + 1]})
                break
    # static side: the library reads no clock, entropy source, object identity or hash value
    import re
    import glob as _glob
    src = os.path.join(os.environ.get('H2_SRC', '/repo/src'), 'h2')
    pat = re.compile(r'^\s*(import|from)\s+(time|random|secrets|uuid|datetime)\b|os\.urandom|\bid\(|\bhash\(|getrandbits|time\.time')
    hits = []
    for path in sorted(_glob.glob(os.path.join(src, '*.py'))):
        for ln, line in enumerate(open(path, encoding='utf-8'), 1):
            code = line.split('#', 1)[0]
            if pat.search(code):
                hits.append('%s:%d: %s' % (os.path.basename(path), ln, line.strip()[:80]))
    if hits:
        fails.append({'seed': seed, 'k': 'static-scan', 'failure': {'clause': 'nondeterminism-source-in-library', 'idx': 0,
                      'detail': {'hits': hits[:5]}}, 'ops': []})
    return {'failures': fails, 'mismatches': [],
            'coverage': {'determinism_programs': len(progs), 'interpreter_processes': runs, 'hash_seeds': hashseeds,
                         'static_scan_files': len(_glob.glob(os.path.join(src, '*.py'))), 'static_scan_hits': len(hits)}}


def _judge(pid, ops, key, seed, model, oracle, fails, mism):
    """run one directed history on the real library (and the model), compare under the projection of `pid`, apply the oracle"""
    from corr import replay
    import checklib as L
    r = replay(ops, model)
    if model is not None:
        for idx, (op, ol, ml, obs) in enumerate(r.log):
            if ml is not None and obs is not None and not r.unmodelled_at(idx) and L.project(pid, ol) != L.project(pid, ml):
                mism.append({'seed': seed, 'k': key, 'idx': idx, 'ops': ops[:idx + 1]})
                break
    fs = oracle(r) if oracle else []
    if fs:
        f = min(fs, key=lambda x: x['idx'])
        fails.append({'seed': seed, 'k': key, 'failure': f, 'ops': ops[:f['idx'] + 1]})
    return r


# HTTP2-Settings values for a server's initiate_upgrade_connection: empty, well-formed, a payload that is not a multiple
# of six bytes, setting values the library refuses (ENABLE_PUSH 2, INITIAL_WINDOW_SIZE 2**31, MAX_FRAME_SIZE 1)
_UPGRADE_HEADERS = [None, b'', b'AAEAAAAA', b'AAQAAAAA', b'AAUAAEAB', b'AAMAAABkAAQAAP__', b'AAMAAA==', b'AA==', b'AAMAAABkAA==',
                    b'AAIAAAAC', b'AASAAAAA', b'AAUAAAAB', b'AAIAAAAAAASAAAAA', b'AAMAAABkAAUAAAAB']


def _zoo_programs(seed, n, kinds):
    """state zoo x call matrix: one connection fed hand-made frames is driven into unusual states (streams open, half
    closed either way, reserved either way, reset by either side, ended, forgotten; stream windows zero or negative after
    the peer lowered INITIAL_WINDOW_SIZE; MAX_FRAME_SIZE raised and lowered again while streams exist; concurrency limit
    0; GOAWAY received or sent; connection closed by an error) and then every public call is tried with boundary
    arguments on known, forgotten, never-used and nonsensical stream ids."""
    import random
    import wire
    REQ = [(b':method', b'GET', False), (b':scheme', b'https', False), (b':path', b'/', False), (b':authority', b'x', False)]
    POST = [(b':method', b'POST', False), (b':scheme', b'https', False), (b':path', b'/', False), (b':authority', b'x', False)]
    RESP = [(b':status', b'200', False)]
    INFO = [(b':status', b'100', False)]
    TRAIL = [(b'x-trailer', b'1', False)]
    blk = wire.hpack_literal_block
    for k in range(n):
        rng = random.Random((seed * 77003 + k) & 0xFFFFFFFF)
        client = rng.random() < 0.5
        ops = [{'op': 'new', 'c': 0, 'client': client, 'vo': 1, 'no': 1, 'vi': 1, 'ni': 1, 'enc': None}]
        pre = rng.random()
        if pre < 0.08:
            pass                                                   # no initiate_connection at all
        elif pre < 0.16 and not client:
            ops.append({'op': 'initiate_upgrade', 'c': 0, 'settings_header': rng.choice(_UPGRADE_HEADERS)})
        elif pre < 0.2 and client:
            ops.append({'op': 'initiate_upgrade', 'c': 0, 'settings_header': None})
        else:
            ops.append({'op': 'initiate_connection', 'c': 0})
            if rng.random() < 0.9:
                ops.append({'op': 'recv', 'c': 0, 'data': (b'' if client else wire.PREFACE) + wire.settings_frame([]) + wire.settings_frame(ack=True)})
        mine = 1 if client else 2
        theirs = 2 if client else 1
        known = []                                                # ids that exist or existed
        big = rng.choice([0, 0, 17000, 40000])

        def recv(data):
            ops.append({'op': 'recv', 'c': 0, 'data': data})

        recipe = rng.random() < 0.6
        if recipe:
            # ordered phases: open streams (requests, responses, pushes) -> move data -> the peer changes its settings
            # (first up, then down) -> some streams end; the probes then hit streams that outlived the change
            theme = rng.choice(['frame', 'window', 'mixed'])
            ups = {'frame': [(5, 32768), (5, 65536), (5, 2**24 - 1)], 'window': [(4, 100000), (4, 2**31 - 1), (4, 65535)],
                   'mixed': [(5, 32768), (4, 100000), (1, 65536), (3, 5)]}[theme]
            downs = {'frame': [(5, 16384), (5, 16384), (5, 20000)], 'window': [(4, 0), (4, 1), (4, 50), (4, 999)],
                     'mixed': [(4, 0), (5, 16384), (3, 0), (1, 0), (2, 0), (4, 999)]}[theme]
            if rng.random() < 0.8:
                recv(wire.settings_frame([rng.choice(ups)]))
            for _ in range(rng.randrange(1, 4)):
                if client:
                    ops.append({'op': 'send_headers', 'c': 0, 'sid': mine, 'headers': POST, 'es': False})
                    known.append(mine)
                    mine += 2
                else:
                    recv(wire.headers_frames(theirs, blk(POST), end_stream=rng.random() < 0.3))
                    known.append(theirs)
                    theirs += 2
                    if rng.random() < 0.7:
                        ops.append({'op': 'send_headers', 'c': 0, 'sid': known[-1], 'headers': RESP, 'es': False})
                    if rng.random() < 0.6:
                        ops.append({'op': 'push_stream', 'c': 0, 'sid': known[-1], 'promised': mine, 'headers': REQ})
                        known.append(mine)
                        mine += 2
            pushed = [x for x in known if (x % 2 == 0) != client and not client]
            for sid in list(known):
                if sid not in pushed and rng.random() < 0.7:
                    ops.append({'op': 'send_data', 'c': 0, 'sid': sid, 'data': b'x' * rng.choice([1, 100, 1000, 16384]), 'es': False})
            for _ in range(rng.randrange(1, 3)):
                recv(wire.settings_frame([rng.choice(downs)]))
            for sid in list(known):
                r = rng.random()
                if r < 0.15:
                    ops.append({'op': 'reset_stream', 'c': 0, 'sid': sid, 'code': 8})
                elif r < 0.3:
                    recv(wire.rst_stream(sid, 8))
                elif r < 0.4:
                    ops.append({'op': 'end_stream', 'c': 0, 'sid': sid})
            if rng.random() < 0.3:
                ops.append({'op': 'q', 'c': 0, 'what': 'open_out'})
            if big == 0 and rng.random() < 0.7:
                big = rng.choice([17000, 40000])
        for _ in range(0 if recipe else rng.randrange(2, 12)):
            r = rng.random()
            if r < 0.18:
                if client:
                    ops.append({'op': 'send_headers', 'c': 0, 'sid': mine, 'headers': rng.choice([REQ, POST]), 'es': rng.random() < 0.3})
                    known.append(mine)
                    mine += 2
                else:
                    recv(wire.headers_frames(theirs, blk(rng.choice([REQ, POST])), end_stream=rng.random() < 0.3))
                    known.append(theirs)
                    theirs += 2
            elif r < 0.28 and known:
                sid = rng.choice(known)
                if client:
                    recv(wire.headers_frames(sid, blk(rng.choice([RESP, RESP, INFO])), end_stream=rng.random() < 0.4))
                else:
                    ops.append({'op': 'send_headers', 'c': 0, 'sid': sid, 'headers': rng.choice([RESP, RESP, INFO]), 'es': rng.random() < 0.4})
            elif r < 0.36 and known:
                sid = rng.choice(known)
                ops.append({'op': 'send_data', 'c': 0, 'sid': sid, 'data': b'x' * rng.choice([0, 1, 100, 1000, 16384]), 'es': rng.random() < 0.3})
            elif r < 0.42 and known:
                recv(wire.data_frame(rng.choice(known), b'y' * rng.choice([0, 1, 500]), rng.random() < 0.4, None))
            elif r < 0.5 and known:
                sid = rng.choice(known)
                if rng.random() < 0.5:
                    ops.append({'op': 'reset_stream', 'c': 0, 'sid': sid, 'code': 8})
                else:
                    recv(wire.rst_stream(sid, rng.choice([0, 2, 8])))
            elif r < 0.68:
                # the peer changes its settings; lowered windows / frame sizes are what the calls must survive
                kv = rng.choice([(4, 0), (4, 0), (4, 1), (4, 500), (4, 65535), (4, 2**31 - 1), (5, 16384), (5, 32768), (5, 65536),
                                 (5, 2**24 - 1), (3, 0), (3, 1), (3, 100), (2, 0), (2, 1), (1, 0), (1, 4096), (6, 10), (6, 100000)])
                recv(wire.settings_frame([kv]))
            elif r < 0.74 and not client and known:
                parent = rng.choice(known)
                ops.append({'op': 'push_stream', 'c': 0, 'sid': parent, 'promised': mine, 'headers': REQ})
                known.append(mine)
                mine += 2
            elif r < 0.8 and client and known:
                recv(wire.push_promise_frames(rng.choice(known), theirs, blk(REQ)))
                known.append(theirs)
                theirs += 2
            elif r < 0.86:
                ops.append({'op': 'q', 'c': 0, 'what': rng.choice(['open_in', 'open_out'])})   # forgets closed streams
            elif r < 0.9:
                ops.append({'op': 'update_settings', 'c': 0, 'settings': [rng.choice([(4, 0), (4, 100), (5, 20000), (3, 1), (1, 0), (6, 50)])]})
                if rng.random() < 0.7:
                    recv(wire.settings_frame(ack=True))
            elif r < 0.93:
                recv(wire.window_update(rng.choice([0] + known), rng.choice([1, 1000, 2**31 - 1])))
            elif r < 0.95:
                recv(wire.goaway(rng.choice([0, 1, 3, 2**31 - 1]), rng.choice([0, 1, 2])))
            elif r < 0.97:
                ops.append({'op': 'close_connection', 'c': 0, 'code': 0, 'extra': None, 'last': None})
            elif r < 0.985:
                recv(wire.data_frame(0, b'zz', False, None))      # connection error
            else:
                ops.append({'op': 'data_to_send', 'c': 0, 'amount': None})
        # the probes
        never = [mine, mine + 2, theirs, theirs + 40, 2**31 - 1, 2**31 - 2]
        odd = [0, -1, 2**31, 2**31 + 1, 2**62]
        def some_sid():
            r = rng.random()
            if known and r < 0.6:
                return rng.choice(known)
            if r < 0.85:
                return rng.choice(never)
            return rng.choice(odd)
        bigval = b'v' * big
        for _ in range(rng.randrange(2, 7)):
            r = rng.randrange(16)
            sid = some_sid()
            if recipe and known and rng.random() < 0.45:
                # streams that outlived the peer's settings change: header blocks and data at the (old and new) limits
                r = rng.choice([0, 0, 1])
                sid = rng.choice(pushed if pushed and rng.random() < 0.5 else known)
                if r == 0 and rng.random() < 0.7:
                    hs = (TRAIL if client else rng.choice([RESP, RESP, TRAIL])) + ([(b'x-big', bigval, False)] if rng.random() < 0.7 else [])
                    ops.append({'op': 'send_headers', 'c': 0, 'sid': sid, 'headers': hs, 'es': rng.random() < 0.5})
                    kinds['send_headers'] = kinds.get('send_headers', 0) + 1
                    continue
            if r == 0:
                hs = rng.choice([REQ, POST, RESP, INFO, TRAIL, [], RESP + [(b'x-big', bigval, False)], REQ + [(b'x-big', bigval, rng.random() < 0.5)],
                                 [(b'X-Upper', b'1', False)], REQ[:2], RESP + RESP, [(b':status', b'abc', False)]])
                prio = rng.random() < 0.3
                ops.append({'op': 'send_headers', 'c': 0, 'sid': sid, 'headers': hs, 'es': rng.random() < 0.5,
                            'pw': rng.choice([1, 256, 0, 257]) if prio else None,
                            'pd': rng.choice([0, sid, 3, 2**31 - 1, 2**31, -1]) if prio and rng.random() < 0.7 else None,
                            'pe': rng.random() < 0.5 if prio and rng.random() < 0.5 else None})
            elif r == 1:
                ops.append({'op': 'send_data', 'c': 0, 'sid': sid, 'data': b'd' * rng.choice([0, 0, 1, 10, 16384, 16385, 70000]),
                            'es': rng.random() < 0.4, 'pad': rng.choice([None, None, None, 0, 1, 255, 256, -1])})
            elif r == 2:
                ops.append({'op': 'end_stream', 'c': 0, 'sid': sid})
            elif r == 3:
                ops.append({'op': 'incr_window', 'c': 0, 'incr': rng.choice([1, 100, 2**31 - 1, 2**31, 0, -5]), 'sid': rng.choice([None, sid, sid])})
            elif r == 4:
                ops.append({'op': 'push_stream', 'c': 0, 'sid': sid, 'promised': rng.choice(never + odd + known[:1]),
                            'headers': rng.choice([REQ, REQ + [(b'x-big', bigval, False)], RESP, []])})
            elif r == 5:
                ops.append({'op': 'ping', 'c': 0, 'data': b'p' * rng.choice([8, 8, 0, 7, 9])})
            elif r == 6:
                ops.append({'op': 'reset_stream', 'c': 0, 'sid': sid, 'code': rng.choice([0, 8, 2**32 - 1, 2**32, -1])})
            elif r == 7:
                ops.append({'op': 'close_connection', 'c': 0, 'code': rng.choice([0, 1, 2**32 - 1, 2**32, -1]),
                            'extra': rng.choice([None, b'', b'bye', b'e' * 16376, b'e' * 16377, b'e' * 70000]),
                            'last': rng.choice([None, None, 0, 1, 2**31 - 1, 2**31, -1])})
            elif r == 8:
                ops.append({'op': 'update_settings', 'c': 0, 'settings': rng.choice([
                    [], [(4, 0)], [(4, 2**31 - 1)], [(4, 2**31)], [(5, 16383)], [(5, 16384)], [(5, 2**24)], [(2, 2)], [(2, 0)], [(3, 2**32)],
                    [(3, 2**32 - 1)], [(1, 2**32 - 1)], [(1, -1)], [(6, 0)], [(8, 1)], [(8, 2)], [(0x99, 5)], [(0x99, 2**32)], [(0x10000, 1)],
                    [(4, 10), (5, 1)], [(1, 0), (4, 4096)], [(i + 0x20, i) for i in range(2731)]])})
            elif r == 9:
                ops.append({'op': 'altsvc', 'c': 0, 'field': rng.choice([b'h2=":443"', b'', b'f' * 16384, b'f' * 70000]),
                            'origin': rng.choice([None, None, b'example.com', b'', b'o' * 65535, b'o' * 65536, b'o' * 16380]),
                            'sid': rng.choice([None, None, sid])})
            elif r == 10:
                ops.append({'op': 'prioritize', 'c': 0, 'sid': sid, 'pw': rng.choice([None, 1, 256, 0, 257, -1]),
                            'pd': rng.choice([None, 0, sid, 5, 2**31 - 1, 2**31, -1]), 'pe': rng.choice([None, True, False])})
            elif r == 11:
                ops.append({'op': 'ack_data', 'c': 0, 'size': rng.choice([0, 1, 500, 65535, 2**31, -1]), 'sid': sid})
            elif r == 12:
                ops.append({'op': 'q', 'c': 0, 'what': rng.choice(['local_window', 'remote_window']), 'sid': sid})
            elif r == 13:
                ops.append({'op': 'q', 'c': 0, 'what': rng.choice(['next_stream_id', 'open_in', 'open_out', 'inbound_window'])})
            elif r == 14:
                ops.append({'op': 'data_to_send', 'c': 0, 'amount': rng.choice([None, 0, 1, 9, -1, 10**6])})
            else:
                ops.append({'op': rng.choice(['initiate_connection', 'clear_out', 'initiate_upgrade'])})
                ops[-1]['c'] = 0
                if ops[-1]['op'] == 'initiate_upgrade':
                    # in whatever state the connection is by now; a server gets well-formed and malformed header values
                    ops[-1]['settings_header'] = None if client else rng.choice(_UPGRADE_HEADERS)
            kinds[ops[-1]['op']] = kinds.get(ops[-1]['op'], 0) + 1
        yield 'zoo-%d' % k, ops




def _run_zoo(pid, oracle, seed, tier, model, deadline, quick_n):
    import time
    n = {'quick': quick_n, 'thorough': 6000}.get(tier, quick_n)
    fails, mism, progs, nops = [], [], 0, 0
    kinds = {}
    for key, ops in _zoo_programs(seed, n, kinds):
        if time.time() > deadline:
            break
        _judge(pid, ops, key, seed, model, oracle, fails, mism)
        progs += 1
        nops += len(ops)
    return {'failures': fails, 'mismatches': mism,
            'coverage': {'state_zoo_programs': progs, 'state_zoo_ops': nops, 'state_zoo_probe_calls': kinds}}


def special_C29(seed, tier, model, deadline):
    """the state zoo (see _zoo_programs), then a server's advertise_alternative_service calls in every shape with field
    values at the frame-size boundary (see _altsvc_send_programs), judged by oracle_C29"""
    from oracles import oracle_C29
    a = _run_zoo('C29', oracle_C29, seed, tier, model, deadline, 300)
    b = _run_directed('C29', oracle_C29, _altsvc_send_programs, 'altsvc_send')(seed, tier, model, deadline, 80)
    a['failures'] += b['failures']
    a['mismatches'] += b['mismatches']
    a['coverage'].update(b.get('coverage') or {})
    return a


def special_C02(seed, tier, model, deadline):
    """the state zoo (frame sizes raised and lowered while streams exist, header blocks and data at the limits, every
    call with boundary arguments) judged by oracle_C02: whatever is appended must parse, fit the peer's limit and be
    exactly the call's frames"""
    from oracles import oracle_C02
    return _run_zoo('C02', oracle_C02, seed, tier, model, deadline, 300)


_WS_FORMS = [(w, where) for w in (b' ', b'\t', b'\n', b'\r', b'\x0b', b'\x0c', b'\r\n', b'  ')
             for where in ('name-lead', 'name-trail', 'value-lead', 'value-trail', 'value-only')]


def mutate_block(rng, base, kind, force_ws=None):
    """a header block for `kind`, derived from a conformant base by 0..3 rule-breaking (or harmless) edits; list of
    (name, value) bytes pairs.  force_ws = (whitespace bytes, position): exactly that one edit, on a regular field if
    there is one (the systematic pass over every whitespace character in every position)"""
    hs = list(base)
    if force_ws is not None:
        w, where = force_ws
        regular = [i for i, h in enumerate(hs) if not h[0].startswith(b':')]
        at = rng.choice(regular) if regular and rng.random() < 0.7 else rng.randrange(len(hs))
        n, v = hs[at]
        hs[at] = {'name-lead': (w + n, v), 'name-trail': (n + w, v), 'value-lead': (n, w + v), 'value-trail': (n, v + w),
                  'value-only': (n, w)}[where]
        return hs
    if rng.random() < 0.4:
        # conformant variation: the pseudo-header fields in another order
        ps = [h for h in hs if h[0].startswith(b':')]
        rng.shuffle(ps)
        hs = ps + [h for h in hs if not h[0].startswith(b':')]
    edits = rng.choice([0, 0, 1, 1, 1, 2, 3])
    for _ in range(edits):
        m = rng.randrange(27)
        pos = rng.randrange(len(hs) + 1)
        at = rng.randrange(len(hs)) if hs else None
        if m == 0 and hs:
            n, v = hs[at]; hs[at] = (n[:1] + n[1:].upper() if rng.random() < 0.5 else n.title(), v)
        elif m == 1 and hs:
            n, v = hs[at]; w = rng.choice([b' ', b'\t', b'\n', b'\r', b'\x0b', b'\x0c'])
            hs[at] = rng.choice([(w + n, v), (n + w, v), (n, w + v), (n, v + w), (n, w), (n, v + b' x'), (n, b'x ' + v)])
        elif m == 2:
            hs.insert(pos, (rng.choice([b'connection', b'proxy-connection', b'keep-alive', b'transfer-encoding', b'upgrade']),
                            rng.choice([b'close', b'x', b''])))
        elif m == 3:
            hs.insert(pos, (b'te', rng.choice([b'trailers', b'Trailers', b'TRAILERS', b'gzip', b'trailers, deflate', b'', b' trailers'])))
        elif m == 4 and hs:
            hs.insert(pos, hs[at])                                   # duplicate a field
        elif m == 5 and len(hs) > 1:
            h = hs.pop(at); hs.insert(pos % (len(hs) + 1), h)         # move a field
        elif m == 6 and hs:
            hs.pop(at)                                                # drop a field
        elif m == 7:
            hs.insert(pos, (rng.choice([b':status', b':method', b':scheme', b':path', b':authority', b':protocol']),
                            rng.choice([b'200', b'GET', b'CONNECT', b'https', b'/', b'x', b'websocket'])))
        elif m == 8:
            hs.insert(pos, (rng.choice([b':foo', b':', b':Status', b':version', b'::path']), b'1'))
        elif m == 9:
            hs.insert(pos, (b'', rng.choice([b'', b'v'])))
        elif m == 10:
            hs = [(n, b'' if n == b':path' else v) for n, v in hs]
        elif m == 11:
            hs.insert(pos, (b'host', rng.choice([b'x', b'y', b'', b'X'])))
        elif m == 12:
            hs = [(n, v) for n, v in hs if n != b':authority']
            if rng.random() < 0.6:
                hs.append((b'host', rng.choice([b'x', b'example.com'])))
        elif m == 13:
            for _ in range(rng.choice([1, 2, 3])):
                hs.insert(rng.randrange(len(hs) + 1), (b'cookie', rng.choice([b'a=b', b'c=d', b'', b' e=f', b'g=h ', b'i=j; k=l'])))
        elif m == 14:
            hs.insert(0, (b'cookie', rng.choice([b'a=b', b'z=1'])))   # a regular field before the pseudo-header fields
        elif m == 15:
            hs.insert(pos, (rng.choice([b'x-custom', b'accept', b'x', b'a-b_c.d', b'0', b'x:y', b'cookie2']),
                            rng.choice([b'', b'v', b'a b', b'\xc3\xa9', b'\xff\xfe', b'a\tb', b'UPPER'])))
        elif m == 16 and hs:
            hs = [(n, b'CONNECT' if n == b':method' else v) for n, v in hs]
        elif m == 17:
            hs.insert(pos, (b':protocol', b'websocket'))
        elif m == 18:
            hs.append((rng.choice([b':path', b':status', b':method']), rng.choice([b'/', b'200', b'GET'])))   # pseudo after regular (if any)
        elif m == 19 and hs:
            n, v = hs[at]; hs[at] = (n + rng.choice([b'\xc3\xa9', b'\xff', b'-x']), v)
        elif m == 20:
            hs = [(n, v) for n, v in hs if not n.startswith(b':')]   # no pseudo-header fields at all
        elif m == 21:
            hs.insert(pos, (b'Host', b'x'))
        elif m == 22:
            hs.insert(pos, (b'authorization', b'secret'))
        elif m == 23:
            # :authority and Host both present, equal / different / one of them empty
            a, h = rng.choice([(b'x', b'x'), (b'x', b'y'), (b'', b'x'), (b'x', b''), (b'', b''), (b'X', b'x')])
            hs = [(n, a if n == b':authority' else v) for n, v in hs]
            if not any(n == b':authority' for n, v in hs):
                hs.insert(0, (b':authority', a))
            hs.append((b'host', h))
        elif m == 24:
            hs = [(n, b'' if n in (b':authority', b':scheme', b':method', b':status') and rng.random() < 0.5 else v) for n, v in hs]
        elif m == 25:
            hs.append((b'te', b'trailers'))
        else:
            hs.insert(pos, (b'x-ok', b'fine'))
    return hs


def special_C15(seed, tier, model, deadline):
    """header blocks over an adversarial grammar (conformant bases with 0..3 edits) delivered in each of the five
    positions (request, response, informational, trailers, pushed request) under each validate/normalise/
    header_encoding configuration; the op carries the block and its kind so that oracle_C15 can also judge
    completeness (conformant -> delivered, non-conformant -> PROTOCOL_ERROR)"""
    import random
    import time
    import wire
    from oracles import oracle_C15
    REQ = [(b':method', b'GET'), (b':scheme', b'https'), (b':path', b'/'), (b':authority', b'x')]
    POST = [(b':method', b'POST'), (b':scheme', b'https'), (b':path', b'/p'), (b':authority', b'x'), (b'x-a', b'1')]
    CONNECT = [(b':method', b'CONNECT'), (b':scheme', b'https'), (b':path', b'/'), (b':authority', b'x'), (b':protocol', b'websocket')]
    HOSTED = [(b':method', b'GET'), (b':scheme', b'http'), (b':path', b'/'), (b'host', b'x')]
    RESP = [(b':status', b'200'), (b'server', b'x')]
    INFO = [(b':status', b'100')]
    TRAIL = [(b'x-checksum', b'abc')]
    blk = lambda hs: wire.hpack_literal_block([(n, v, False) for n, v in hs])
    n = {'quick': 600, 'thorough': 10000}.get(tier, 600)
    fails, mism, progs, nops = [], [], 0, 0
    stats = {}
    import rulebook
    for k in range(n):
        if time.time() > deadline:
            break
        rng = random.Random((seed * 15485863 + k) & 0xFFFFFFFF)
        kind = rng.choice(['request', 'request', 'response', 'informational', 'trailers', 'push'])
        # the systematic pass first: every whitespace character in every position, the block kinds in turn
        fw = _WS_FORMS[k % len(_WS_FORMS)] if k < 2 * len(_WS_FORMS) else None
        if fw is not None:
            kind = ['request', 'response', 'trailers', 'push', 'informational'][(k // len(_WS_FORMS) + k) % 5]
        vi = 0 if rng.random() < 0.15 else 1
        ni = 0 if rng.random() < 0.3 else 1
        enc = rng.choice([None, None, 'utf-8'])
        client = kind in ('response', 'informational', 'push') or (kind == 'trailers' and rng.random() < 0.5)
        ops = [{'op': 'new', 'c': 0, 'client': client, 'vo': 1, 'no': 1, 'vi': vi, 'ni': ni, 'enc': enc},
               {'op': 'initiate_connection', 'c': 0},
               {'op': 'recv', 'c': 0, 'data': (b'' if client else wire.PREFACE) + wire.settings_frame([]) + wire.settings_frame(ack=True)}]
        if kind == 'request':
            hs = mutate_block(rng, rng.choice([REQ, REQ, POST, CONNECT, HOSTED]), kind, fw)
            ops.append({'op': 'recv', 'c': 0, 'data': wire.headers_frames(1, blk(hs), end_stream=rng.random() < 0.5)})
        elif kind == 'response':
            hs = mutate_block(rng, RESP, kind, fw)
            ops.append({'op': 'send_headers', 'c': 0, 'sid': 1, 'headers': [(n, v, False) for n, v in REQ], 'es': True})
            ops.append({'op': 'recv', 'c': 0, 'data': wire.headers_frames(1, blk(hs), end_stream=rng.random() < 0.5)})
        elif kind == 'informational':
            hs = mutate_block(rng, INFO + [(b'link', b'</a>')], kind, fw) if fw else mutate_block(rng, INFO, kind)
            if not any(n == b':status' and v[:1] == b'1' for n, v in hs[:1]):
                kind = 'response'       # without a leading 1xx :status the library (rightly) reads the block as a response
            ops.append({'op': 'send_headers', 'c': 0, 'sid': 1, 'headers': [(n, v, False) for n, v in REQ], 'es': True})
            ops.append({'op': 'recv', 'c': 0, 'data': wire.headers_frames(1, blk(hs), end_stream=False)})
        elif kind == 'trailers':
            hs = mutate_block(rng, TRAIL, kind, fw)
            if client:
                ops.append({'op': 'send_headers', 'c': 0, 'sid': 1, 'headers': [(n, v, False) for n, v in REQ], 'es': True})
                ops.append({'op': 'recv', 'c': 0, 'data': wire.headers_frames(1, blk(RESP), end_stream=False)})
            else:
                ops.append({'op': 'recv', 'c': 0, 'data': wire.headers_frames(1, blk(POST), end_stream=False)})
            ops.append({'op': 'recv', 'c': 0, 'data': wire.headers_frames(1, blk(hs), end_stream=True)})
        else:
            hs = mutate_block(rng, rng.choice([REQ, REQ, HOSTED]), kind, fw)
            ops.append({'op': 'send_headers', 'c': 0, 'sid': 1, 'headers': [(n, v, False) for n, v in REQ], 'es': False})
            ops.append({'op': 'recv', 'c': 0, 'data': wire.push_promise_frames(1, 2, blk(hs))})
        # blocks whose type the library decides differently from the position are left to the soundness clauses
        judge = True
        if kind in ('response', 'informational'):
            first_status = next((v for n, v in hs if n == b':status'), None)
            lead = hs[0][0].startswith(b':') if hs else False
            if kind == 'response' and lead and first_status is not None and first_status[:1] == b'1':
                judge = False
            if any(n == b'content-length' for n, v in hs):
                judge = False
        if judge:
            ops[-1]['expect'] = {'kind': kind, 'headers': hs}
        prob = rulebook.block_problem(hs, kind)
        stats[(kind, prob or 'conformant')] = stats.get((kind, prob or 'conformant'), 0) + 1
        _judge('C15', ops, 'grammar-%d' % k, seed, model, oracle_C15, fails, mism)
        progs += 1
        nops += len(ops)
    dist = {}
    for (kind, p), c in stats.items():
        dist.setdefault(kind, {})[p] = c
    return {'failures': fails, 'mismatches': mism,
            'coverage': {'grammar_programs': progs, 'grammar_ops': nops, 'grammar_blocks_by_kind_and_first_broken_rule': dist}}


def special_C14(seed, tier, model, deadline):
    """outbound header lists over a grammar (conformant bases with 0..3 edits; names and values as bytes or text, mixed
    case, surrounding whitespace, every special field name, duplicates, reorderings) sent as request, response,
    informational response, trailers and pushed request under each normalise/validate option combination; the op
    says which kind of block it is (the stream is in the right state), so oracle_C14 also judges refusals"""
    import random
    import time
    import wire
    from oracles import oracle_C14
    REQ = [(b':method', b'GET'), (b':scheme', b'https'), (b':path', b'/'), (b':authority', b'x')]
    POST = [(b':method', b'POST'), (b':scheme', b'https'), (b':path', b'/p'), (b':authority', b'x'), (b'x-a', b'1')]
    CONNECT = [(b':method', b'CONNECT'), (b':scheme', b'https'), (b':path', b'/'), (b':authority', b'x'), (b':protocol', b'websocket')]
    HOSTED = [(b':method', b'GET'), (b':scheme', b'http'), (b':path', b'/'), (b'host', b'x')]
    RESP = [(b':status', b'200'), (b'server', b'x')]
    INFO = [(b':status', b'100')]
    TRAIL = [(b'x-checksum', b'abc')]
    blk = lambda hs: wire.hpack_literal_block([(n, v, False) for n, v in hs])
    n = {'quick': 600, 'thorough': 10000}.get(tier, 600)
    fails, mism, progs, nops = [], [], 0, 0
    stats = {}
    import rulebook

    def dress(rng, hs):
        """the same fields as the application might write them: text or bytes, odd case, padding"""
        out = []
        for nm, v in hs:
            r = rng.random()
            if r < 0.25:
                nm = nm.title() if rng.random() < 0.5 else nm.upper()
            if rng.random() < 0.2:
                w = rng.choice([b' ', b'\t', b'  ', b'\n', b'\r\n', b'\x0b', b'\x0c'])
                nm, v = rng.choice([(w + nm, v), (nm + w, v), (nm, w + v), (nm, v + w), (w + nm + w, w + v + w)])
            ni = rng.random() < 0.1
            try:
                if rng.random() < 0.35:
                    nm, v = nm.decode('ascii'), v.decode('utf-8')
            except UnicodeDecodeError:
                pass
            out.append((nm, v, ni))
        return out

    for k in range(n):
        if time.time() > deadline:
            break
        rng = random.Random((seed * 32452843 + k) & 0xFFFFFFFF)
        kind = rng.choice(['request', 'request', 'response', 'informational', 'trailers', 'push'])
        vo = 0 if rng.random() < 0.2 else 1
        no = 0 if rng.random() < 0.25 else 1
        client = kind == 'request' or (kind == 'trailers' and rng.random() < 0.5)
        ops = [{'op': 'new', 'c': 0, 'client': client, 'vo': vo, 'no': no, 'vi': 1, 'ni': 1, 'enc': None},
               {'op': 'initiate_connection', 'c': 0},
               {'op': 'recv', 'c': 0, 'data': (b'' if client else wire.PREFACE) + wire.settings_frame([]) + wire.settings_frame(ack=True)}]
        plain = lambda hs: [(a, b, False) for a, b in hs]
        if kind == 'request':
            hs = mutate_block(rng, rng.choice([REQ, REQ, POST, CONNECT, HOSTED]), kind)
            sid = 1
        elif kind == 'response':
            hs = mutate_block(rng, RESP, kind)
            ops.append({'op': 'recv', 'c': 0, 'data': wire.headers_frames(1, blk(REQ), end_stream=True)})
            sid = 1
        elif kind == 'informational':
            hs = mutate_block(rng, INFO, kind)
            ops.append({'op': 'recv', 'c': 0, 'data': wire.headers_frames(1, blk(REQ), end_stream=True)})
            sid = 1
        elif kind == 'trailers':
            hs = mutate_block(rng, TRAIL, kind)
            if client:
                ops.append({'op': 'send_headers', 'c': 0, 'sid': 1, 'headers': plain(POST), 'es': False})
            else:
                ops.append({'op': 'recv', 'c': 0, 'data': wire.headers_frames(1, blk(REQ), end_stream=True)})
                ops.append({'op': 'send_headers', 'c': 0, 'sid': 1, 'headers': plain(RESP), 'es': False})
            sid = 1
        else:
            hs = mutate_block(rng, rng.choice([REQ, REQ, HOSTED]), kind)
            ops.append({'op': 'recv', 'c': 0, 'data': wire.headers_frames(1, blk(REQ), end_stream=False)})
            sid = 1
        hs = [(a, b) for a, b in hs if a != b'content-length']
        args = dress(rng, hs)
        if kind == 'push':
            ops.append({'op': 'push_stream', 'c': 0, 'sid': sid, 'promised': 2, 'headers': args})
        else:
            ops.append({'op': 'send_headers', 'c': 0, 'sid': sid, 'headers': args, 'es': kind == 'trailers' or (kind != 'informational' and rng.random() < 0.5)})
        # is the block's kind what the library will take it for?
        judge = True
        norm = [(a, b) for a, b, _ in rulebook.normalise_out([(a, b) for a, b, _ in args])]
        first = [(rulebook.to_bytes(a), rulebook.to_bytes(b)) for a, b, _ in args]
        lead_status = None
        for a, b in first:
            if not a.startswith(b':'):
                break
            if a == b':status':
                lead_status = b
                break
        if kind == 'informational' and not (lead_status is not None and lead_status[:1] == b'1'):
            kind = 'response'
        elif kind == 'response' and lead_status is not None and lead_status[:1] == b'1':
            kind = 'informational'
            judge = not ops[-1].get('es')
        if kind == 'trailers' and not client and lead_status is not None and lead_status[:1] == b'1':
            judge = False
        if any(isinstance(a, bytes) != isinstance(b, bytes) for a, b, _ in args):
            judge = False
        if judge:
            ops[-1]['expect'] = {'kind': kind}
        prob = rulebook.block_problem_out(norm, kind)
        stats[(kind, prob or 'conformant')] = stats.get((kind, prob or 'conformant'), 0) + 1
        _judge('C14', ops, 'grammar-%d' % k, seed, model, oracle_C14, fails, mism)
        progs += 1
        nops += len(ops)
    dist = {}
    for (kind, p), c in stats.items():
        dist.setdefault(kind, {})[p] = c
    return {'failures': fails, 'mismatches': mism,
            'coverage': {'grammar_programs': progs, 'grammar_ops': nops, 'grammar_blocks_by_kind_and_first_broken_rule': dist}}


def _boundary_programs(seed, n):
    """header blocks whose HPACK-encoded length sits within a few bytes of the peer's frame size (and of twice it), sent
    as plain HEADERS, HEADERS with priority fields and PUSH_PROMISE (first header block of the connection, so that a
    fresh hpack.Encoder predicts the length); also data frames and padding at the limits"""
    import random
    import hpack
    import wire
    REQ = [(b':method', b'GET'), (b':scheme', b'https'), (b':path', b'/'), (b':authority', b'x')]
    blk = wire.hpack_literal_block

    base_len = {}

    def filler_for(base, target):
        """length n such that encode(base + [('x-fill', 'a'*n)]) has exactly `target` bytes (None if not hit);
        'a' costs 5 bits in the HPACK Huffman code, so the answer is near (target - base) * 8 / 5"""
        enc_len = lambda k: len(hpack.Encoder().encode(base + [(b'x-fill', b'a' * k)]))
        key = repr(base)
        if key not in base_len:
            base_len[key] = enc_len(0)
        guess = max(0, (target - base_len[key] - 2) * 8 // 5)
        for k in [guess + d for d in (0, -1, 1, -2, 2, -3, 3, -4, 4, -5, 5, -6, 6)]:
            if k >= 0 and enc_len(k) == target:
                return k
        return None

    for k in range(n):
        rng = random.Random((seed * 49979687 + k) & 0xFFFFFFFF)
        limit = rng.choice([16384, 16384, 16384, 20000, 32768])
        mult = rng.choice([1, 1, 1, 2])
        delta = rng.choice(range(-9, 10))
        target = limit * mult + delta
        how = rng.choice(['plain', 'prio', 'prio', 'push', 'push'])
        peer = [(5, limit)] if limit != 16384 else []
        if how == 'push':
            ops = [{'op': 'new', 'c': 0, 'client': False, 'vo': 1, 'no': 1, 'vi': 1, 'ni': 1, 'enc': None},
                   {'op': 'initiate_connection', 'c': 0},
                   {'op': 'recv', 'c': 0, 'data': wire.PREFACE + wire.settings_frame(peer) + wire.settings_frame(ack=True)},
                   {'op': 'recv', 'c': 0, 'data': wire.headers_frames(1, blk([(a, b, False) for a, b in REQ]), end_stream=False)}]
            nfill = filler_for(REQ, target)
            if nfill is None:
                continue
            ops.append({'op': 'push_stream', 'c': 0, 'sid': 1, 'promised': 2,
                        'headers': [(a, b, False) for a, b in REQ] + [(b'x-fill', b'a' * nfill, False)]})
            ops.append({'op': 'send_headers', 'c': 0, 'sid': 1, 'headers': [(b':status', b'200', False)], 'es': False})
        else:
            ops = [{'op': 'new', 'c': 0, 'client': True, 'vo': 1, 'no': 1, 'vi': 1, 'ni': 1, 'enc': None},
                   {'op': 'initiate_connection', 'c': 0},
                   {'op': 'recv', 'c': 0, 'data': wire.settings_frame(peer) + wire.settings_frame(ack=True)}]
            nfill = filler_for(REQ, target)
            if nfill is None:
                continue
            op = {'op': 'send_headers', 'c': 0, 'sid': 1, 'es': rng.random() < 0.5,
                  'headers': [(a, b, False) for a, b in REQ] + [(b'x-fill', b'a' * nfill, False)]}
            if how == 'prio':
                op.update({'pw': rng.choice([1, 16, 256]), 'pd': rng.choice([None, 0, 3]), 'pe': rng.choice([None, True, False])})
            ops.append(op)
            ops.append({'op': 'send_headers', 'c': 0, 'sid': 3, 'headers': [(a, b, False) for a, b in REQ], 'es': True})
        # data at the limit, with and without padding
        if how != 'push' and rng.random() < 0.5:
            pad = rng.choice([None, 0, 1, 255])
            room = limit - (0 if pad is None else pad + 1)
            ops.insert(-1, {'op': 'recv', 'c': 0, 'data': wire.window_update(0, 2**20) + wire.settings_frame([(4, 2**20)])})
            ops.insert(-1, {'op': 'send_data', 'c': 0, 'sid': 1, 'data': b'd' * max(0, room + rng.choice([-1, 0, 0, 1])), 'es': False, 'pad': pad})
        yield 'boundary-%d' % k, ops


def _run_boundary(pid, oracle, seed, tier, model, deadline, quick_n):
    import time
    n = {'quick': quick_n, 'thorough': 1500}.get(tier, quick_n)
    fails, mism, progs, nops = [], [], 0, 0
    for key, ops in _boundary_programs(seed, n):
        if time.time() > deadline:
            break
        _judge(pid, ops, key, seed, model, oracle, fails, mism)
        progs += 1
        nops += len(ops)
    return {'failures': fails, 'mismatches': mism, 'coverage': {'boundary_programs': progs, 'boundary_ops': nops}}


def special_C13(seed, tier, model, deadline):
    """header blocks at the frame-size boundary (plain, with priority fields, pushed) under oracle_C13"""
    from oracles import oracle_C13
    return _run_boundary('C13', oracle_C13, seed, tier, model, deadline, 50)


_special_C02_zoo = special_C02


def special_C02(seed, tier, model, deadline):
    """the state zoo, then header blocks / DATA at the frame-size boundary, under oracle_C02"""
    from oracles import oracle_C02
    a = _special_C02_zoo(seed, tier, model, deadline)
    b = _run_boundary('C02', oracle_C02, seed, tier, model, deadline, 50)
    a['failures'] += b['failures']
    a['mismatches'] += b['mismatches']
    a['coverage'].update(b['coverage'])
    return a


def _body_programs(seed, n):
    """messages and their bodies as a peer may send them: content-length present / absent / repeated (same or different
    values) / not a number, body shorter, equal or longer than announced and cut into DATA frames, ended by DATA, by the
    first HEADERS or by trailers; responses to GET / HEAD / CONNECT (plain and extended) requests with ordinary, 1xx,
    204, 304 and non-numeric :status values"""
    import random
    import wire
    blk = lambda hs: wire.hpack_literal_block([(a, b, False) for a, b in hs])
    for k in range(n):
        rng = random.Random((seed * 86028121 + k) & 0xFFFFFFFF)
        client = rng.random() < 0.6
        ops = [{'op': 'new', 'c': 0, 'client': client, 'vo': 1, 'no': 1, 'vi': rng.choice([1, 1, 1, 0]), 'ni': 1, 'enc': rng.choice([None, None, 'utf-8'])},
               {'op': 'initiate_connection', 'c': 0},
               {'op': 'recv', 'c': 0, 'data': (b'' if client else wire.PREFACE) + wire.settings_frame([]) + wire.settings_frame(ack=True)}]
        n_len = rng.choice([0, 1, 5, 10, 100])
        cl = rng.choice([None, None, str(n_len).encode(), str(n_len).encode(), str(n_len + 1).encode(), b'0', b'abc', b'', b'-1', b' 5', b'1_0', b'+5'])
        cls = []
        if cl is not None:
            cls.append(cl)
            r = rng.random()
            if r < 0.25:
                cls.append(cl)                                   # repeated, same value
            elif r < 0.5:
                cls.append(rng.choice([b'0', b'7', str(n_len + 3).encode(), b'abc']))   # repeated, different value
                if rng.random() < 0.3:
                    cls.append(str(n_len + 9).encode())
        extra = [(b'content-length', v) for v in cls]
        body = b'b' * rng.choice([n_len, n_len, max(0, n_len - 1), n_len + 1, 0])
        cuts = sorted(rng.randrange(0, len(body) + 1) for _ in range(rng.choice([0, 0, 1, 2])))
        chunks = [body[a:b] for a, b in zip([0] + cuts, cuts + [len(body)])]
        ending = rng.choice(['data', 'data', 'headers', 'trailers', 'trailers', 'none'])
        if client:
            method = rng.choice([b'GET', b'GET', b'HEAD', b'CONNECT', b'CONNECT', b'POST'])
            req = [(b':method', method), (b':scheme', b'https'), (b':path', b'/'), (b':authority', b'x')]
            if method == b'CONNECT' and rng.random() < 0.6:
                req.append((b':protocol', b'websocket'))
            rng2 = random.Random((seed * 7919 + k * 31 + 5) & 0xFFFFFFFF)
            rng3 = random.Random((seed * 104729 + k * 17 + 3) & 0xFFFFFFFF)
            if rng3.random() < 0.2:
                # the target named by a host field instead of :authority
                req = [(a, b) for a, b in req if a != b':authority'] + [(b'host', b'x')]
            req_es = rng.random() < 0.5
            if rng3.random() < 0.25:
                # the request is ended by trailers
                ops.append({'op': 'send_headers', 'c': 0, 'sid': 1, 'headers': [(a, b, False) for a, b in req], 'es': False})
                ops.append({'op': 'send_headers', 'c': 0, 'sid': 1, 'headers': [(b'x-request-trailer', b'1', False)], 'es': True})
            else:
                ops.append({'op': 'send_headers', 'c': 0, 'sid': 1, 'headers': [(a, b, False) for a, b in req], 'es': req_es})
            if rng.random() < 0.2:
                recv_info = wire.headers_frames(1, blk([(b':status', rng.choice([b'100', b'103', b'1xx']))]), end_stream=False)
                ops.append({'op': 'recv', 'c': 0, 'data': recv_info})
            elif rng2.random() < 0.25:
                # an interim response with a content-length of its own: it says nothing about the final response's body
                icl = rng2.choice([b'0', b'7', str(n_len + 2).encode(), str(n_len).encode()])
                for _ in range(rng2.choice([1, 1, 2])):
                    ops.append({'op': 'recv', 'c': 0, 'data': wire.headers_frames(1, blk([(b':status', rng2.choice([b'100', b'103'])), (b'content-length', icl)]))})
            status = rng.choice([b'200', b'200', b'204', b'304', b'404', b'2xx', b'abc', b'', b'\xff\xfe', b'20', b'2000', b'+200', b' 200'])
            if rng3.random() < 0.3:
                # every class of status, the ones around the no-content ones in particular
                status = rng3.choice([b'201', b'202', b'203', b'205', b'206', b'207', b'300', b'301', b'303', b'305', b'307', b'400', b'416', b'500', b'503', b'599', b'199'])
            first = [(b':status', status)] + extra
        else:
            method = rng.choice([b'GET', b'POST', b'POST', b'HEAD', b'PUT'])
            first = [(b':method', method), (b':scheme', b'https'), (b':path', b'/'), (b':authority', b'x')] + extra
        rng.shuffle(extra)
        frames = [wire.headers_frames(1, blk(first), end_stream=(ending == 'headers'))]
        if ending != 'headers':
            for j, ch in enumerate(chunks):
                last = j == len(chunks) - 1
                pad = rng.choice([None, None, 0, 3])
                frames.append(wire.data_frame(1, ch, end_stream=(ending == 'data' and last), pad=pad))
            if ending == 'trailers':
                frames.append(wire.headers_frames(1, blk([(b'x-trailer', b'1')]), end_stream=True))
        if rng.random() < 0.5:
            ops.append({'op': 'recv', 'c': 0, 'data': b''.join(frames)})
        else:
            for f in frames:
                ops.append({'op': 'recv', 'c': 0, 'data': f})
        if not client and rng.random() < 0.5:
            ops.append({'op': 'send_headers', 'c': 0, 'sid': 1, 'headers': [(b':status', b'200', False)], 'es': True})
        yield 'body-%d' % k, ops


def _run_body(pid, oracle, seed, tier, model, deadline, quick_n):
    import time
    n = {'quick': quick_n, 'thorough': 6000}.get(tier, quick_n)
    fails, mism, progs, nops = [], [], 0, 0
    for key, ops in _body_programs(seed, n):
        if time.time() > deadline:
            break
        _judge(pid, ops, key, seed, model, oracle, fails, mism)
        progs += 1
        nops += len(ops)
    return {'failures': fails, 'mismatches': mism, 'coverage': {'body_programs': progs, 'body_ops': nops}}


def special_C16(seed, tier, model, deadline):
    """announced versus actual body length in every arrangement (see _body_programs) under oracle_C16"""
    from oracles import oracle_C16
    return _run_body('C16', oracle_C16, seed, tier, model, deadline, 300)


def _settings_walk_programs(seed, n):
    """a peer that changes its mind: for every setting (known, unknown, 8-bit aliases of known ones) a walk of two to
    five values over several SETTINGS frames — up, down, back, the same again, the boundaries and just past them —
    alone or mixed with other settings in the frame, with streams open so that window and frame-size changes land"""
    import random
    import wire
    blk = wire.hpack_literal_block
    REQB = blk([(b':method', b'GET'), (b':scheme', b'https'), (b':path', b'/'), (b':authority', b'x')])
    VALUES = {1: [0, 1, 4096, 65536, 2**32 - 1], 2: [0, 1, 2], 3: [0, 1, 100, 2**32 - 1], 4: [0, 1, 65535, 2**31 - 1, 2**31],
              5: [16383, 16384, 16385, 2**24 - 1, 2**24], 6: [0, 1, 100, 2**32 - 1], 8: [0, 1, 2],
              9: [0, 7, 2**32 - 1], 0x102: [0, 1, 5], 0x304: [0, 2**31], 0xFF05: [0, 16384], 0x1008: [0, 1, 2], 0xFFFF: [0, 2**32 - 1]}
    for k in range(n):
        rng = random.Random((seed * 86243 + k) & 0xFFFFFFFF)
        client = rng.random() < 0.5
        ops = [{'op': 'new', 'c': 0, 'client': client, 'vo': 1, 'no': 1, 'vi': 1, 'ni': 1, 'enc': rng.choice([None, 'utf-8'])},
               {'op': 'initiate_connection', 'c': 0},
               {'op': 'recv', 'c': 0, 'data': (b'' if client else wire.PREFACE) + wire.settings_frame([]) + wire.settings_frame(ack=True)}]
        if client:
            ops.append({'op': 'send_headers', 'c': 0, 'sid': 1, 'headers': [(b':method', b'GET', False), (b':scheme', b'https', False), (b':path', b'/', False), (b':authority', b'x', False)], 'es': False})
        else:
            ops.append({'op': 'recv', 'c': 0, 'data': wire.headers_frames(1, REQB)})
        key = rng.choice(sorted(VALUES))
        walk = [rng.choice(VALUES[key]) for _ in range(rng.randrange(2, 6))]
        if rng.random() < 0.5:
            v = VALUES[key]
            walk = [v[min(1, len(v) - 1)], v[0]] + walk[:1]          # something, then back to the smallest value
        for v in walk:
            items = [(key, v)]
            if rng.random() < 0.3:
                k2 = rng.choice(sorted(VALUES))
                items.insert(rng.randrange(2), (k2, rng.choice(VALUES[k2])))
            ops.append({'op': 'recv', 'c': 0, 'data': wire.settings_frame(items)})
            if rng.random() < 0.3:
                ops.append({'op': 'data_to_send', 'c': 0, 'amount': None})
        yield 'walk-%d' % k, ops


def _own_settings_traffic_programs(seed, n):
    """the endpoint itself announces a setting — every identifier from 1 to 16 (the registered ones and the ones later
    RFCs gave a meaning: 8 ENABLE_CONNECT_PROTOCOL, 9 NO_RFC7540_PRIORITIES), value 0 or 1 or the setting's default —
    the peer acknowledges it or not, and then ordinary traffic of every frame type arrives in its common shapes (HEADERS
    plain, with priority fields, padded, in CONTINUATION frames; PRIORITY; DATA; PING; WINDOW_UPDATE; RST_STREAM;
    PUSH_PROMISE; ALTSVC; SETTINGS): what the endpoint announced must not make well-formed input fatal"""
    import random
    import wire
    blk = wire.hpack_literal_block
    REQ = [(b':method', b'GET', False), (b':scheme', b'https', False), (b':path', b'/', False), (b':authority', b'x', False)]
    REQB = blk([(h[0], h[1]) for h in REQ])
    RESP = blk([(b':status', b'200')])
    for k in range(n):
        rng = random.Random((seed * 2750159 + k) & 0xFFFFFFFF)
        client = rng.random() < 0.5
        ops = [{'op': 'new', 'c': 0, 'client': client, 'vo': 1, 'no': 1, 'vi': 1, 'ni': 1, 'enc': None},
               {'op': 'initiate_connection', 'c': 0},
               {'op': 'recv', 'c': 0, 'data': (b'' if client else wire.PREFACE) + wire.settings_frame([]) + wire.settings_frame(ack=True)}]
        ident = rng.choice(list(range(1, 17)) + [8, 9, 9, 9, 7, 10])
        default = {1: 4096, 3: 100, 4: 65535, 5: 16384, 6: 65536}.get(ident, 1)
        value = rng.choice([0, 1, 1, default])
        ops.append({'op': 'update_settings', 'c': 0, 'settings': [(ident, value)]})
        if rng.random() < 0.8:
            ops.append({'op': 'recv', 'c': 0, 'data': wire.settings_frame(ack=True)})
        if client:
            ops.append({'op': 'send_headers', 'c': 0, 'sid': 1, 'headers': REQ, 'es': rng.random() < 0.5})
        nxt = 1 if client else 1
        for _ in range(rng.randrange(2, 7)):
            kind = rng.choice(['headers', 'headers-prio', 'headers-prio', 'headers-pad', 'headers-cont', 'priority', 'data', 'ping', 'window',
                               'rst', 'push', 'altsvc', 'settings'])
            if client:
                sid, block = 1, RESP
            else:
                sid, block = nxt, REQB
            if kind.startswith('headers'):
                d = wire.headers_frames(sid, block, end_stream=rng.random() < 0.3,
                                        prio=(rng.choice([0, 3, 5]), rng.choice([1, 16, 256]), rng.random() < 0.5) if kind == 'headers-prio' else None,
                                        pad=4 if kind == 'headers-pad' else None, max_frag=5 if kind == 'headers-cont' else None)
                if not client:
                    nxt += 2
            elif kind == 'priority':
                d = wire.priority(rng.choice([1, 3, 9]), 0, rng.choice([1, 16, 256]), rng.random() < 0.5)
            elif kind == 'data':
                d = wire.data_frame(1, b'abc', end_stream=rng.random() < 0.3, pad=rng.choice([None, None, 2]))
            elif kind == 'ping':
                d = wire.ping(b'12345678', ack=rng.random() < 0.3)
            elif kind == 'window':
                d = wire.window_update(rng.choice([0, 1]), rng.choice([1, 1000]))
            elif kind == 'rst':
                d = wire.rst_stream(1, rng.choice([0, 8]))
            elif kind == 'push':
                d = wire.push_promise_frames(1, rng.choice([2, 4]), REQB)
            elif kind == 'altsvc':
                d = wire.altsvc(rng.choice([0, 1]), b'example.com' if rng.random() < 0.5 else b'', b'h2=":443"')
            else:
                d = wire.settings_frame([(rng.choice([1, 2, 3, 4, 5, 6, 8, 9]), rng.choice([0, 1]))] if rng.random() < 0.7 else [])
            ops.append({'op': 'recv', 'c': 0, 'data': d})
        yield 'own-setting-%d-%d-%d' % (k, ident, value), ops


def special_C17(seed, tier, model, deadline):
    """odd status / method / content-length values around message bodies (see _body_programs), walks of SETTINGS values
    (see _settings_walk_programs) and ordinary traffic after the endpoint announced a setting of its own (see
    _own_settings_traffic_programs) under oracle_C17"""
    from oracles import oracle_C17
    res = _run_body('C17', oracle_C17, seed, tier, model, deadline, 300)
    for gen_, cov_, n_ in ((_settings_walk_programs, 'settings_walk', 250), (_own_settings_traffic_programs, 'own_settings', 200)):
        more = _run_directed('C17', oracle_C17, gen_, cov_)(seed, tier, model, deadline, n_)
        res['failures'] += more['failures']
        res['mismatches'] += more['mismatches']
        res['coverage'].update(more['coverage'])
    return res


def special_C11(seed, tier, model, deadline):
    """settings traffic only: update_settings calls (one / many settings, an invalid value first, in the middle or last,
    unknown identifiers, more settings than fit one frame) interleaved with the peer's ACKs (none, one, several at
    once, more than were earned) and the peer's own SETTINGS frames, with streams open so that window changes land"""
    import random
    import time
    import wire
    from oracles import oracle_C11
    REQ = [(b':method', b'GET', False), (b':scheme', b'https', False), (b':path', b'/', False), (b':authority', b'x', False)]
    n = {'quick': 200, 'thorough': 4000}.get(tier, 200)
    fails, mism, progs, nops = [], [], 0, 0
    VALID = [(1, 0), (1, 4096), (1, 65536), (2, 0), (2, 1), (3, 0), (3, 7), (4, 0), (4, 100), (4, 65535), (4, 2**31 - 1), (5, 16384),
             (5, 20000), (5, 2**24 - 1), (6, 0), (6, 100), (8, 0), (8, 1), (9, 5), (0x99, 1), (0xFF, 7), (0x100, 3), (0xFFFF, 9)]
    INVALID = [(2, 2), (4, 2**31), (5, 16383), (5, 2**24), (8, 2), (3, 2**32), (1, -1), (0x10000, 1), (-1, 0)]
    for k in range(n):
        if time.time() > deadline:
            break
        rng = random.Random((seed * 67867967 + k) & 0xFFFFFFFF)
        client = rng.random() < 0.5
        ops = [{'op': 'new', 'c': 0, 'client': client, 'vo': 1, 'no': 1, 'vi': 1, 'ni': 1, 'enc': None},
               {'op': 'initiate_connection', 'c': 0}]
        if rng.random() < 0.7:
            ops.append({'op': 'recv', 'c': 0, 'data': (b'' if client else wire.PREFACE) + wire.settings_frame([])})
        elif not client:
            ops.append({'op': 'recv', 'c': 0, 'data': wire.PREFACE})
        if client and rng.random() < 0.5:
            ops.append({'op': 'send_headers', 'c': 0, 'sid': 1, 'headers': REQ, 'es': False})
        owed = 1
        for _ in range(rng.randrange(3, 12)):
            r = rng.random()
            if r < 0.45:
                m = rng.choice([1, 1, 1, 2, 3, 5])
                items = dict(rng.sample(VALID, m))
                rr = rng.random()
                if rr < 0.2:
                    bad = rng.choice(INVALID)
                    lst = list(items.items())
                    lst.insert(rng.randrange(len(lst) + 1), bad)
                    items = dict(lst)
                elif rr < 0.27:
                    items = dict([(0x20 + i, i % 7) for i in range(rng.choice([2730, 2731, 2732, 3000]))] + list(items.items()))
                ops.append({'op': 'update_settings', 'c': 0, 'settings': list(items.items())})
                owed += 1
            elif r < 0.8:
                acks = rng.choice([1, 1, 1, 2, 3])
                ops.append({'op': 'recv', 'c': 0, 'data': wire.settings_frame(ack=True) * acks})
            elif r < 0.93:
                ops.append({'op': 'recv', 'c': 0, 'data': wire.settings_frame([rng.choice(VALID[:20])] if rng.random() < 0.8 else
                                                                             [rng.choice(VALID[:20]), rng.choice(VALID[:20])])})
            else:
                ops.append({'op': 'q', 'c': 0, 'what': 'inbound_window'})
        _judge('C11', ops, 'settings-%d' % k, seed, model, oracle_C11, fails, mism)
        progs += 1
        nops += len(ops)
    return {'failures': fails, 'mismatches': mism, 'coverage': {'settings_programs': progs, 'settings_ops': nops}}


def special_C01(seed, tier, model, deadline):
    """conversations (harness/conversation.py): a client and a server of the library exchanging only what the application
    may send in the state its endpoint is in, delivered k frames or n bytes at a time in either direction; every
    delivery and every event is judged by oracle_C01, every op compared with the model"""
    import random
    import time
    import checklib as L
    from conversation import conversation
    from oracles import ORACLES
    oracle = ORACLES['C01']
    n = {'quick': 250, 'thorough': 6000}.get(tier, 250)
    fails, mism, progs, nops = [], [], 0, 0
    kinds = {}
    for k in range(n):
        if time.time() > deadline:
            break
        rng = random.Random((seed * 99991 + k) & 0xFFFFFFFF)
        r = conversation(rng, model, rng.choice([40, 80, 150]), kinds)
        progs += 1
        nops += len(r.log)
        if model is not None:
            for idx, (op, ol, ml, obs) in enumerate(r.log):
                if ml is not None and obs is not None and not r.unmodelled_at(idx) and L.project('C01', ol) != L.project('C01', ml):
                    mism.append({'seed': seed, 'k': 'conv-%d' % k, 'idx': idx, 'ops': r.ops[:idx + 1]})
                    break
        fs = oracle(r)
        if fs:
            f = min(fs, key=lambda x: x['idx'])
            fails.append({'seed': seed, 'k': 'conv-%d' % k, 'failure': f, 'ops': r.ops[:f['idx'] + 1]})
    cov = {'conversation_programs': progs, 'conversation_ops': nops, 'conversation_calls': kinds}
    if tier == 'thorough':
        # exhaustive search of the two-machine system of one stream, up to three frames in flight each way, over the
        # transition table regenerated from stream.py (tools/pair_fsm_search.lean): a test that supports the theorems
        # fsm_sync / fsm_cross, which cover one frame each way
        import re
        import subprocess
        root = os.path.dirname(HERE)
        try:
            p = subprocess.run(['lake', 'env', 'lean', os.path.join(root, 'tools', 'pair_fsm_search.lean')],
                               cwd=os.path.join(root, 'lean'), stdout=subprocess.PIPE, stderr=subprocess.STDOUT, timeout=900)
            txt = p.stdout.decode('utf-8', 'replace')
            m = re.search(r'\((\d+), \[(.*)\]\)', txt, re.S)
            cov['pair_fsm_search'] = {'configurations': int(m.group(1)) if m else None, 'refused_deliveries': (m.group(2).strip()[:400] if m else txt[-400:])}
            if not m or m.group(2).strip():
                fails.append({'seed': seed, 'k': 'pair-fsm-search', 'ops': [],
                              'failure': {'clause': 'pair-fsm-search-found-a-refused-delivery', 'idx': 0,
                                          'detail': {'cause': 'unexplained', 'output': (m.group(2) if m else txt)[-600:]}}})
        except Exception as e:  # noqa
            cov['pair_fsm_search'] = {'error': repr(e)}
    return {'failures': fails, 'mismatches': mism, 'coverage': cov}


def _reset_race_programs(seed, n):
    """C20: one endpoint resets a stream of its own choosing; the peer's frames for that stream (HEADERS, DATA,
    WINDOW_UPDATE, RST_STREAM, in random order, one delivery each) arrive afterwards - before or after the closed stream
    was cleaned out of the table, with or without the endpoint's MAX_CONCURRENT_STREAMS reached by other streams."""
    import random
    import wire
    blk = wire.hpack_literal_block
    REQ = [(b':method', b'POST', False), (b':scheme', b'https', False), (b':path', b'/', False), (b':authority', b'x', False)]
    RESP = blk([(b':status', b'200')])
    TRAIL = blk([(b'x-trailer', b'1')])
    for k in range(n):
        rng = random.Random((seed * 60013 + k) & 0xFFFFFFFF)
        client = rng.random() < 0.5
        limit = rng.choice([None, 1, 1, 2])
        cleaned = rng.random() < 0.7
        ops = [{'op': 'new', 'c': 0, 'client': client, 'vo': 1, 'no': 1, 'vi': 1, 'ni': 1, 'enc': None},
               {'op': 'initiate_connection', 'c': 0},
               {'op': 'recv', 'c': 0, 'data': (b'' if client else wire.PREFACE) + wire.settings_frame([]) + wire.settings_frame(ack=True)}]
        if limit is not None:
            ops += [{'op': 'update_settings', 'c': 0, 'settings': [(3, limit)]}, {'op': 'recv', 'c': 0, 'data': wire.settings_frame(ack=True)}]
        shape = rng.choice(['plain', 'plain', 'length', 'pushed', 'push-on-reset'] if client else ['plain', 'plain', 'length'])
        CL = [(b'content-length', b'10', False)]
        if client:
            victim = 3
            ops += [{'op': 'send_headers', 'c': 0, 'sid': 1, 'headers': REQ, 'es': False},
                    {'op': 'send_headers', 'c': 0, 'sid': 3, 'headers': REQ, 'es': rng.random() < 0.5}]
            # the peer's streams that fill the limit: pushes with their responses
            for j in range(limit or 0):
                p = 2 + 2 * j
                ops.append({'op': 'recv', 'c': 0, 'data': wire.push_promise_frames(1, p, blk([(b':method', b'GET'), (b':scheme', b'https'), (b':path', b'/p'), (b':authority', b'x')]))})
                ops.append({'op': 'recv', 'c': 0, 'data': wire.headers_frames(p, RESP)})
            if shape == 'pushed':
                # the victim is a pushed stream, reset while still reserved: the pushed response races the reset
                victim = 2 + 2 * (limit or 0)
                ops.append({'op': 'recv', 'c': 0, 'data': wire.push_promise_frames(1, victim, blk([(b':method', b'GET'), (b':scheme', b'https'), (b':path', b'/v'), (b':authority', b'x')]))})
                racing = [wire.headers_frames(victim, RESP), wire.data_frame(victim, b'late' * rng.choice([0, 0, 1, 7, 49]), pad=rng.choice([None, None, 0, 17, 255]), end_stream=rng.random() < 0.5),
                          wire.rst_stream(victim, 0)]
            elif shape == 'push-on-reset':
                # the peer promises streams on the request stream we are about to reset; its next header block uses what the
                # promise put into the compression context
                q = 2 + 2 * (limit or 0)
                racing = [wire.push_promise_frames(victim, q, blk([(b':method', b'GET'), (b':scheme', b'https'), (b':path', b'/q'), (b':authority', b'x')])),
                          wire.push_promise_frames(victim, q + 2, blk([(b':method', b'GET'), (b':scheme', b'https'), (b':path', b'/r'), (b':authority', b'x')]))]
            elif shape == 'length':
                # the response announced a length and part of the body came before the reset: the rest and the trailers race it
                ops.append({'op': 'recv', 'c': 0, 'data': wire.headers_frames(victim, blk([(b':status', b'200'), (b'content-length', b'10')]))})
                if rng.random() < 0.5:
                    ops.append({'op': 'recv', 'c': 0, 'data': wire.data_frame(victim, b'1234')})
                racing = [wire.data_frame(victim, b'56'), wire.headers_frames(victim, TRAIL, end_stream=True)]
            else:
                racing = [wire.headers_frames(victim, RESP, end_stream=rng.random() < 0.5), wire.data_frame(victim, b'late' * rng.choice([0, 0, 1, 7, 49]), pad=rng.choice([None, None, 0, 17, 255])),
                          wire.window_update(victim, rng.randrange(1, 1000)), wire.rst_stream(victim, rng.choice([0, 5, 8]))]
            alive = wire.headers_frames(1, RESP, end_stream=True)
        else:
            victim = 1
            req = [(h[0], h[1]) for h in REQ] + ([(b'content-length', b'10')] if shape == 'length' else [])
            ops.append({'op': 'recv', 'c': 0, 'data': wire.headers_frames(1, blk(req))})
            if shape == 'length':
                if rng.random() < 0.5:
                    ops.append({'op': 'recv', 'c': 0, 'data': wire.data_frame(victim, b'1234')})
                racing = [wire.data_frame(victim, b'56'), wire.headers_frames(victim, TRAIL, end_stream=True)]
            else:
                racing = [wire.headers_frames(victim, TRAIL, end_stream=True), wire.data_frame(victim, b'late' * rng.choice([0, 0, 1, 7, 49]), pad=rng.choice([None, None, 0, 17, 255])),
                          wire.window_update(victim, rng.randrange(1, 1000)), wire.rst_stream(victim, rng.choice([0, 5, 8]))]
            alive = wire.ping(b'12345678')
        ops.append({'op': 'reset_stream', 'c': 0, 'sid': victim, 'code': rng.choice([0, 8, 11])})
        if cleaned:
            ops.append({'op': 'q', 'c': 0, 'what': rng.choice(['open_out', 'open_in'])})
        if not client:
            # other streams of the peer fill the limit after the reset
            for j in range(limit or 0):
                ops.append({'op': 'recv', 'c': 0, 'data': wire.headers_frames(3 + 2 * j, blk([(h[0], h[1]) for h in REQ]))})
        if shape == 'plain':
            rng.shuffle(racing)
        # RST_STREAM ends what the peer may send on the stream: nothing of the rest after it
        cut = next((i for i, f in enumerate(racing) if f[3] == wire.RST_STREAM), len(racing))
        for f in racing[:cut + 1]:
            ops.append({'op': 'recv', 'c': 0, 'data': f})
        ops.append({'op': 'recv', 'c': 0, 'data': alive})
        yield 'race-%d' % k, ops


def special_C20(seed, tier, model, deadline):
    """directed reset races (see _reset_race_programs) judged by oracle_C20 and compared with the model"""
    import time
    from oracles import oracle_C20
    n = {'quick': 300, 'thorough': 6000}.get(tier, 300)
    fails, mism, progs, nops = [], [], 0, 0
    for key, ops in _reset_race_programs(seed, n):
        if time.time() > deadline:
            break
        _judge('C20', ops, key, seed, model, oracle_C20, fails, mism)
        progs += 1
        nops += len(ops)
    return {'failures': fails, 'mismatches': mism, 'coverage': {'reset_race_programs': progs, 'reset_race_ops': nops}}


# ---------------------------------------------------------------------------
# C19: a closed connection stays quiet
# ---------------------------------------------------------------------------
def _closed_conn_programs(seed, n, close=True):
    """streams in every final situation (open, ended, reset by us, reset by the peer; still in the table or cleaned out
    of it), then the connection is closed by one of the three routes (close_connection, a received GOAWAY, a connection
    error), then frames of every type arrive for every kind of stream id (0, live, closed, forgotten, never used) —
    naked CONTINUATION included — and every public call is tried."""
    import random
    import wire
    blk = wire.hpack_literal_block
    REQ = [(b':method', b'GET', False), (b':scheme', b'https', False), (b':path', b'/', False), (b':authority', b'x', False)]
    REQB = blk([(h[0], h[1]) for h in REQ])
    RESP = blk([(b':status', b'200')])
    for k in range(n):
        rng = random.Random((seed * 48611 + k) & 0xFFFFFFFF)
        client = rng.random() < 0.5
        ops = [{'op': 'new', 'c': 0, 'client': client, 'vo': 1, 'no': 1, 'vi': 1, 'ni': 1, 'enc': None},
               {'op': 'initiate_connection', 'c': 0},
               {'op': 'recv', 'c': 0, 'data': (b'' if client else wire.PREFACE) + wire.settings_frame([]) + wire.settings_frame(ack=True)}]
        sids = [1, 3, 5, 7]
        fate = {}
        for sid in sids:
            if client:
                ops.append({'op': 'send_headers', 'c': 0, 'sid': sid, 'headers': REQ, 'es': rng.random() < 0.5})
            else:
                ops.append({'op': 'recv', 'c': 0, 'data': wire.headers_frames(sid, REQB, end_stream=rng.random() < 0.5)})
            fate[sid] = rng.choice(['open', 'reset-local', 'reset-local', 'reset-peer', 'reset-peer', 'ended'])
        for sid in sids:
            f = fate[sid]
            if f == 'reset-local':
                ops.append({'op': 'reset_stream', 'c': 0, 'sid': sid, 'code': rng.choice([0, 8])})
            elif f == 'reset-peer':
                ops.append({'op': 'recv', 'c': 0, 'data': wire.rst_stream(sid, rng.choice([0, 8]))})
            elif f == 'ended':
                if client:
                    ops.append({'op': 'recv', 'c': 0, 'data': wire.headers_frames(sid, RESP, end_stream=True)})
                    ops.append({'op': 'end_stream', 'c': 0, 'sid': sid})
                else:
                    ops.append({'op': 'send_headers', 'c': 0, 'sid': sid, 'headers': [(b':status', b'200', False)], 'es': True})
                    ops.append({'op': 'recv', 'c': 0, 'data': wire.data_frame(sid, b'', end_stream=True)})
        pushed = []
        if rng.random() < 0.5:
            # pushed streams (promised on a request that can still carry a promise), each with a fate of its own
            parents = [x for x in sids if fate[x] == 'open']
            for promised in (2, 4):
                if not parents:
                    break
                pushed.append(promised)
                parent = rng.choice(parents)
                pf = rng.choice(['reserved', 'reset-local', 'reset-peer', 'ended', 'ended'])
                if client:
                    ops.append({'op': 'recv', 'c': 0, 'data': wire.push_promise_frames(parent, promised, REQB)})
                else:
                    ops.append({'op': 'push_stream', 'c': 0, 'sid': parent, 'promised': promised, 'headers': REQ})
                if pf == 'reset-local':
                    ops.append({'op': 'reset_stream', 'c': 0, 'sid': promised, 'code': rng.choice([0, 7, 8])})
                elif pf == 'reset-peer':
                    ops.append({'op': 'recv', 'c': 0, 'data': wire.rst_stream(promised, rng.choice([0, 7, 8]))})
                elif pf == 'ended':
                    if client:
                        ops.append({'op': 'recv', 'c': 0, 'data': wire.headers_frames(promised, RESP, end_stream=True)})
                    else:
                        ops.append({'op': 'send_headers', 'c': 0, 'sid': promised, 'headers': [(b':status', b'200', False)], 'es': True})
        if rng.random() < 0.7:
            # closed streams leave the table when the open streams are counted
            ops.append({'op': 'q', 'c': 0, 'what': rng.choice(['open_out', 'open_in'])})
        route = rng.choice(['close', 'goaway', 'error']) if close else 'stay-open'
        if route == 'stay-open':
            pass
        elif route == 'close':
            ops.append({'op': 'close_connection', 'c': 0, 'code': rng.choice([0, 1, 2])})
        elif route == 'goaway':
            ops.append({'op': 'recv', 'c': 0, 'data': wire.goaway(rng.choice([0, 7]), rng.choice([0, 1]))})
        else:
            ops.append({'op': 'recv', 'c': 0, 'data': rng.choice([wire.window_update(0, 0x7FFFFFFF), wire.frame(wire.PING, 0, 1, b'12345678'),
                                                                 wire.frame(wire.SETTINGS, 0, 0, b'abc')])})
        if rng.random() < 0.5:
            ops.append({'op': 'data_to_send', 'c': 0, 'amount': None})
        targets = [0] + sids + [9, 2, 4, 1001] + pushed + pushed
        for _ in range(rng.randrange(4, 12)):
            sid = rng.choice(targets)
            kind = rng.choice(['continuation', 'continuation', 'data', 'headers', 'headers', 'rst', 'window', 'priority', 'ping', 'settings', 'push', 'altsvc', 'goaway', 'call'])
            if kind == 'continuation':
                d = wire.frame(wire.CONTINUATION, rng.choice([0, 4]), sid, rng.choice([b'', RESP]))
            elif kind == 'data':
                d = wire.data_frame(sid, b'x' * rng.choice([0, 1, 10]), end_stream=rng.random() < 0.5) if sid else wire.frame(wire.DATA, 0, 0, b'x')
            elif kind == 'headers':
                d = wire.headers_frames(sid or 1, rng.choice([RESP, REQB]), end_stream=rng.random() < 0.5)
            elif kind == 'rst':
                d = wire.rst_stream(sid or 1, 0)
            elif kind == 'window':
                d = wire.window_update(sid, rng.choice([1, 100, 0x7FFFFFFF, 0x7FFFFFFF]))  # the largest one overruns any window: answered with RST_STREAM on a live connection
            elif kind == 'priority':
                d = wire.priority(sid or 1, 0, 16)
            elif kind == 'ping':
                d = wire.ping(b'abcdefgh', ack=rng.random() < 0.3)
            elif kind == 'settings':
                d = wire.settings_frame([(4, 100)]) if rng.random() < 0.7 else wire.settings_frame(ack=True)
            elif kind == 'push':
                d = wire.push_promise_frames(sid or 1, rng.choice([2, 4, 100]), REQB)
            elif kind == 'altsvc':
                d = wire.altsvc(sid, b'' if sid else b'example.com', b'h2=":443"')
            elif kind == 'goaway':
                d = wire.goaway(0, 0)
            else:
                c = rng.choice(['send_data', 'end_stream', 'reset_stream', 'ping', 'incr_window', 'send_headers', 'ack_data', 'update_settings', 'close_connection'])
                s1 = sid or 1
                call = {'send_data': {'op': 'send_data', 'c': 0, 'sid': s1, 'data': b'x', 'es': False, 'pad': None},
                        'end_stream': {'op': 'end_stream', 'c': 0, 'sid': s1},
                        'reset_stream': {'op': 'reset_stream', 'c': 0, 'sid': s1, 'code': 0},
                        'ping': {'op': 'ping', 'c': 0, 'data': b'12345678'},
                        'incr_window': {'op': 'incr_window', 'c': 0, 'incr': 10, 'sid': sid or None},
                        'send_headers': {'op': 'send_headers', 'c': 0, 'sid': s1, 'headers': REQ if client else [(b':status', b'200', False)], 'es': False},
                        'ack_data': {'op': 'ack_data', 'c': 0, 'size': 1, 'sid': s1},
                        'update_settings': {'op': 'update_settings', 'c': 0, 'settings': [(3, 5)]},
                        'close_connection': {'op': 'close_connection', 'c': 0, 'code': 0}}[c]
                ops.append(call)
                continue
            ops.append({'op': 'recv', 'c': 0, 'data': d})
        yield 'closed-%d' % k, ops


def _run_directed(pid, oracle, programs, cov):
    def go(seed, tier, model, deadline, quick_n, thorough_n=4000):
        import time
        n = {'quick': quick_n, 'thorough': thorough_n}.get(tier, quick_n)
        fails, mism, progs, nops = [], [], 0, 0
        for key, ops in programs(seed, n):
            if time.time() > deadline:
                break
            _judge(pid, ops, key, seed, model, oracle, fails, mism)
            progs += 1
            nops += len(ops)
        return {'failures': fails, 'mismatches': mism, 'coverage': {cov + '_programs': progs, cov + '_ops': nops}}
    return go


def special_C19(seed, tier, model, deadline):
    """directed histories around a closed connection (see _closed_conn_programs) judged by oracle_C19"""
    from oracles import oracle_C19
    return _run_directed('C19', oracle_C19, _closed_conn_programs, 'closed_conn')(seed, tier, model, deadline, 250)


# ---------------------------------------------------------------------------
# C05: DATA the library acknowledges on the application's behalf
# ---------------------------------------------------------------------------
def _auto_ack_programs(seed, n):
    """DATA for streams that are closed, reset or forgotten (the library credits the connection window itself): frames
    with and without padding, with empty payloads (padding only), in amounts that use up the whole connection window;
    every DataReceived the application does get is acknowledged at once"""
    import random
    import wire
    blk = wire.hpack_literal_block
    REQ = [(b':method', b'POST', False), (b':scheme', b'https', False), (b':path', b'/', False), (b':authority', b'x', False)]
    REQB = blk([(h[0], h[1]) for h in REQ])
    RESP = blk([(b':status', b'200')])
    for k in range(n):
        rng = random.Random((seed * 92821 + k) & 0xFFFFFFFF)
        client = rng.random() < 0.5
        ops = [{'op': 'new', 'c': 0, 'client': client, 'vo': 1, 'no': 1, 'vi': 1, 'ni': 1, 'enc': None},
               {'op': 'initiate_connection', 'c': 0},
               {'op': 'recv', 'c': 0, 'data': (b'' if client else wire.PREFACE) + wire.settings_frame([]) + wire.settings_frame(ack=True)}]
        if client:
            ops.append({'op': 'send_headers', 'c': 0, 'sid': 1, 'headers': REQ, 'es': False})
            ops.append({'op': 'send_headers', 'c': 0, 'sid': 3, 'headers': REQ, 'es': False})
            ops.append({'op': 'recv', 'c': 0, 'data': wire.headers_frames(1, RESP)})
        else:
            ops.append({'op': 'recv', 'c': 0, 'data': wire.headers_frames(1, REQB)})
            ops.append({'op': 'recv', 'c': 0, 'data': wire.headers_frames(3, REQB)})
        how = rng.choice(['reset-local', 'reset-local', 'reset-peer', 'forgotten'])
        if how == 'reset-peer':
            ops.append({'op': 'recv', 'c': 0, 'data': wire.rst_stream(1, 0)})
        else:
            ops.append({'op': 'reset_stream', 'c': 0, 'sid': 1, 'code': 0})
        if how == 'forgotten':
            ops.append({'op': 'q', 'c': 0, 'what': 'open_in'})
        shape = rng.choice(['padding-only', 'padding-only', 'padded', 'plain', 'mixed'])
        budget = 65535
        frames = []
        while budget > 0 and len(frames) < 400:
            if shape == 'padding-only' or (shape == 'mixed' and rng.random() < 0.5):
                pad = min(255, budget - 1)
                frames.append(wire.data_frame(1, b'', pad=pad))
                budget -= pad + 1
            elif shape == 'padded':
                pad = min(rng.choice([0, 7, 255]), max(0, budget - 2))
                body = min(rng.choice([1, 100, 1000]), budget - pad - 1)
                frames.append(wire.data_frame(1, b'p' * max(0, body), pad=pad))
                budget -= pad + 1 + max(0, body)
            else:
                body = min(rng.choice([1, 1000, 16384]), budget)
                frames.append(wire.data_frame(1, b'd' * body))
                budget -= body
            if rng.random() < 0.02:
                break
        per = rng.choice([1, 8, 64, 1000])
        for j in range(0, len(frames), per):
            ops.append({'op': 'recv', 'c': 0, 'data': b''.join(frames[j:j + per])})
        # the window must be open again for the stream that is still alive
        ops.append({'op': 'recv', 'c': 0, 'data': wire.data_frame(3, b'live')})
        ops.append({'op': 'ack_data', 'c': 0, 'size': 4, 'sid': 3})
        yield 'autoack-%d' % k, ops


def special_C05(seed, tier, model, deadline):
    """DATA on closed streams up to the whole connection window (see _auto_ack_programs) under oracle_C05"""
    from oracles import oracle_C05
    return _run_directed('C05', oracle_C05, _auto_ack_programs, 'auto_ack')(seed, tier, model, deadline, 60, 1500)


# ---------------------------------------------------------------------------
# C08: refused header calls must leave the message grammar where it was
# ---------------------------------------------------------------------------
def _refused_headers_programs(seed, n):
    """a header call that fails (ill-typed tuple, a header block the outbound validation refuses, trailers without
    END_STREAM) on request, response, pushed and upgraded streams, followed by the sends that are only legal if the
    failed call had gone through"""
    import random
    import wire
    blk = wire.hpack_literal_block
    REQ = [(b':method', b'GET', False), (b':scheme', b'https', False), (b':path', b'/', False), (b':authority', b'x', False)]
    REQB = blk([(h[0], h[1]) for h in REQ])
    OKH = [(b':status', b'200', False)]
    for k in range(n):
        rng = random.Random((seed * 15485863 + k) & 0xFFFFFFFF)
        client = rng.random() < 0.35
        rng4 = random.Random((seed * 611953 + k * 13 + 7) & 0xFFFFFFFF)
        ops = [{'op': 'new', 'c': 0, 'client': client, 'vo': rng4.choice([1, 1, 0]), 'no': rng4.choice([1, 1, 0]), 'vi': 1, 'ni': 1, 'enc': None},
               {'op': 'initiate_connection', 'c': 0},
               {'op': 'recv', 'c': 0, 'data': (b'' if client else wire.PREFACE) + wire.settings_frame([]) + wire.settings_frame(ack=True)}]
        bad = rng.choice([
            [(b':status', '200', False)],                              # bytes name, text value
            [(':status', b'200', False)],
            [(b':status', b'200', False), ('x', b'y', False)],
            [(b':status', b'200', False), (b'x', 'y', False)],
            [(b'x-no-status', b'1', False)],                           # refused by the outbound validation
            [(b':status', b'200', False), (b'Connection', b'close', False)],
            [(b':status', b'200', False), (b':status', b'200', False)],
            [(b':status', b'200', False), (b'content-length', 4, False)],      # a value that is not a string at all:
            [(b':status', b'200', False), (b'x', None, False)],                # it fails late, while the block is built
            [(':status', '200', False), ('content-length', 4, False)],
            [(b':status', b'200', False), (b'content-length', 4, False)],
        ])
        if client and rng.random() < 0.4:
            # a request that is complete; then the peer's frames on it (response headers, a promise, DATA, a window update);
            # then whatever the application may try to send on it
            ops.append({'op': 'send_headers', 'c': 0, 'sid': 1, 'headers': REQ, 'es': True})
            for _ in range(rng.randrange(1, 4)):
                ops.append({'op': 'recv', 'c': 0, 'data': rng.choice([
                    wire.push_promise_frames(1, rng.choice([2, 4]), REQB), wire.headers_frames(1, blk([(b':status', b'200')])),
                    wire.data_frame(1, b'abc'), wire.window_update(1, 10), wire.headers_frames(1, blk([(b':status', b'103')]))])})
            for _ in range(rng.randrange(1, 4)):
                ops.append(rng.choice([{'op': 'send_data', 'c': 0, 'sid': 1, 'data': b'more', 'es': rng.random() < 0.5, 'pad': None},
                                       {'op': 'end_stream', 'c': 0, 'sid': 1},
                                       {'op': 'send_headers', 'c': 0, 'sid': 1, 'headers': [(b'x-trailer', b'1', False)], 'es': True}]))
            yield 'after-end-%d' % k, ops
            continue
        if client:
            bad = rng.choice([[(b':method', 'GET', False)] + REQ[1:], [(':method', b'GET', False)] + REQ[1:], REQ[1:], REQ + [(b'te', b'gzip', False)]])
            target = 1
            follow_headers = REQ
        else:
            ops.append({'op': 'recv', 'c': 0, 'data': wire.headers_frames(1, REQB, end_stream=rng.random() < 0.5)})
            target = 1
            if rng.random() < 0.6:
                ops.append({'op': 'push_stream', 'c': 0, 'sid': 1, 'promised': 2, 'headers': REQ})
                target = 2
            follow_headers = OKH
        ops.append({'op': 'send_headers', 'c': 0, 'sid': target, 'headers': bad, 'es': rng.random() < 0.3})
        if not client and rng4.random() < 0.35:
            # the message in order (interim responses, the final response, a body), then header blocks that may not follow:
            # another interim response (with and without END_STREAM), a second final response
            for _ in range(rng4.randrange(0, 2)):
                ops.append({'op': 'send_headers', 'c': 0, 'sid': target, 'headers': [(b':status', b'103', False)], 'es': False})
            ops.append({'op': 'send_headers', 'c': 0, 'sid': target, 'headers': OKH, 'es': False})
            if rng4.random() < 0.5:
                ops.append({'op': 'send_data', 'c': 0, 'sid': target, 'data': b'body', 'es': False, 'pad': None})
            for _ in range(rng4.randrange(1, 3)):
                ops.append({'op': 'send_headers', 'c': 0, 'sid': target,
                            'headers': rng4.choice([[(b':status', b'103', False)], [(b':status', b'100', False), (b'x', b'y', False)], OKH]),
                            'es': rng4.random() < 0.6})
        for _ in range(rng.randrange(1, 5)):
            what = rng.choice(['data', 'data', 'end', 'trailers', 'headers', 'bad-again'])
            if what == 'data':
                ops.append({'op': 'send_data', 'c': 0, 'sid': target, 'data': b'body', 'es': rng.random() < 0.4, 'pad': None})
            elif what == 'end':
                ops.append({'op': 'end_stream', 'c': 0, 'sid': target})
            elif what == 'trailers':
                ops.append({'op': 'send_headers', 'c': 0, 'sid': target, 'headers': [(b'x-trailer', b'1', False)], 'es': True})
            elif what == 'headers':
                ops.append({'op': 'send_headers', 'c': 0, 'sid': target, 'headers': follow_headers, 'es': rng.random() < 0.3})
            else:
                ops.append({'op': 'send_headers', 'c': 0, 'sid': target, 'headers': bad, 'es': False})
        yield 'refused-%d' % k, ops


def special_C08(seed, tier, model, deadline):
    """failed header calls followed by sends (see _refused_headers_programs) under oracle_C08"""
    from oracles import oracle_C08
    return _run_directed('C08', oracle_C08, _refused_headers_programs, 'refused_headers')(seed, tier, model, deadline, 300)


# ---------------------------------------------------------------------------
# C26: many PINGs between two drains of the output buffer
# ---------------------------------------------------------------------------
def _ping_flood_programs(seed, n):
    """1 … 600 PING frames (distinct payloads, some of them ACKs, other frames in between) delivered in one or several
    receive_data calls, with the output buffer drained completely, partly or not at all in between"""
    import random
    import struct
    import wire
    for k in range(n):
        rng = random.Random((seed * 32452843 + k) & 0xFFFFFFFF)
        client = rng.random() < 0.5
        ops = [{'op': 'new', 'c': 0, 'client': client, 'vo': 1, 'no': 1, 'vi': 1, 'ni': 1, 'enc': None},
               {'op': 'initiate_connection', 'c': 0},
               {'op': 'recv', 'c': 0, 'data': (b'' if client else wire.PREFACE) + wire.settings_frame([]) + wire.settings_frame(ack=True)}]
        if rng.random() < 0.5:
            ops.append({'op': 'data_to_send', 'c': 0, 'amount': None})
        total = rng.choice([1, 5, 63, 64, 65, 66, 100, 129, 300, 600])
        per = rng.choice([1, 7, 64, 65, 1000])
        drain = rng.choice(['never', 'never', 'partly', 'fully-sometimes'])
        buf = []
        for j in range(total):
            buf.append(wire.ping(struct.pack('>II', k & 0xFFFFFFFF, j), ack=rng.random() < 0.05))
            if rng.random() < 0.05:
                buf.append(wire.window_update(0, 1))
            if len(buf) >= per or j == total - 1:
                ops.append({'op': 'recv', 'c': 0, 'data': b''.join(buf)})
                buf = []
                if drain == 'partly':
                    ops.append({'op': 'data_to_send', 'c': 0, 'amount': rng.choice([1, 17, 100])})
                elif drain == 'fully-sometimes' and rng.random() < 0.3:
                    ops.append({'op': 'data_to_send', 'c': 0, 'amount': None})
        ops.append({'op': 'ping', 'c': 0, 'data': b'\x00' * 8})
        # our own PINGs: the same payload again and again, with and without the peer's ACK in between
        mine = rng.choice([b'keepaliv', b'\x00' * 8, b'12345678'])
        for _ in range(rng.randrange(1, 5)):
            ops.append({'op': 'ping', 'c': 0, 'data': rng.choice([mine, mine, b'otherpay'])})
            if rng.random() < 0.3:
                ops.append({'op': 'recv', 'c': 0, 'data': wire.ping(mine, ack=True)})
            if rng.random() < 0.3:
                ops.append({'op': 'data_to_send', 'c': 0, 'amount': None})
        yield 'pings-%d' % k, ops


def special_C26(seed, tier, model, deadline):
    """PING floods (see _ping_flood_programs) under oracle_C26"""
    from oracles import oracle_C26
    return _run_directed('C26', oracle_C26, _ping_flood_programs, 'ping_flood')(seed, tier, model, deadline, 80, 1500)


# ---------------------------------------------------------------------------
# C27: retained state after the limits were hit
# ---------------------------------------------------------------------------
def _after_limit_programs(seed, n):
    """a header block that runs past CONTINUATION_BACKLOG (HEADERS or PUSH_PROMISE + 63 … 70 CONTINUATION frames, empty or
    not), then — the connection error notwithstanding — more CONTINUATION frames, other frames and calls; and long runs
    of streams opened and reset so that the memory of closed streams reaches its cap"""
    import random
    import wire
    blk = wire.hpack_literal_block
    REQB = blk([(b':method', b'GET'), (b':scheme', b'https'), (b':path', b'/'), (b':authority', b'x')])
    for k in range(n):
        rng = random.Random((seed * 49979687 + k) & 0xFFFFFFFF)
        client = rng.random() < 0.4
        ops = [{'op': 'new', 'c': 0, 'client': client, 'vo': 1, 'no': 1, 'vi': 1, 'ni': 1, 'enc': None},
               {'op': 'initiate_connection', 'c': 0},
               {'op': 'recv', 'c': 0, 'data': (b'' if client else wire.PREFACE) + wire.settings_frame([]) + wire.settings_frame(ack=True)}]
        if rng.random() < 0.75:
            sid = 1
            if client:
                ops.append({'op': 'send_headers', 'c': 0, 'sid': 1, 'headers': [(b':method', b'GET', False), (b':scheme', b'https', False), (b':path', b'/', False), (b':authority', b'x', False)], 'es': True})
                first = wire.push_promise_frames(1, 2, REQB, max_frag=3)[:9 + 4 + 3] if rng.random() < 0.5 else None
                if first is None:
                    first = wire.frame(wire.HEADERS, 0, 1, blk([(b':status', b'200')]))
                else:
                    first = wire.frame(wire.PUSH_PROMISE, 0, 1, b'\x00\x00\x00\x02' + REQB[:3])
            else:
                first = wire.frame(wire.HEADERS, rng.choice([0, 1]), 1, REQB[:5])
            total = rng.choice([62, 63, 64, 65, 66, 70, 130])
            per = rng.choice([1, 1, 7, 1000])
            frames = [first] + [wire.frame(wire.CONTINUATION, 0, sid, rng.choice([b'', b'x', b'y' * 100])) for _ in range(total)]
            for j in range(0, len(frames), per):
                ops.append({'op': 'recv', 'c': 0, 'data': b''.join(frames[j:j + per])})
            # after the error: the peer keeps talking, the application keeps listening
            for _ in range(rng.randrange(0, 40)):
                kind = rng.choice(['cont', 'cont', 'cont', 'end', 'other', 'call'])
                if kind == 'cont':
                    ops.append({'op': 'recv', 'c': 0, 'data': wire.frame(wire.CONTINUATION, 0, sid, b'z' * rng.choice([0, 1, 50]))})
                elif kind == 'end':
                    ops.append({'op': 'recv', 'c': 0, 'data': wire.frame(wire.CONTINUATION, 4, sid, b'')})
                elif kind == 'other':
                    ops.append({'op': 'recv', 'c': 0, 'data': rng.choice([wire.ping(b'12345678'), wire.window_update(0, 1), wire.settings_frame([])])})
                else:
                    ops.append(rng.choice([{'op': 'data_to_send', 'c': 0, 'amount': None}, {'op': 'ping', 'c': 0, 'data': b'12345678'},
                                           {'op': 'q', 'c': 0, 'what': 'open_in'}]))
        else:
            # many streams opened by the peer and reset (by either side), interleaved with the cleanup
            if client:
                continue
            m = rng.choice([50, 101, 120, 250])
            for j in range(m):
                sid = 1 + 2 * j
                ops.append({'op': 'recv', 'c': 0, 'data': wire.headers_frames(sid, REQB, end_stream=rng.random() < 0.5)})
                if rng.random() < 0.5:
                    ops.append({'op': 'recv', 'c': 0, 'data': wire.rst_stream(sid, 8)})
                else:
                    ops.append({'op': 'reset_stream', 'c': 0, 'sid': sid, 'code': 0})
                if rng.random() < 0.1:
                    ops.append({'op': 'data_to_send', 'c': 0, 'amount': None})
        yield 'limit-%d' % k, ops


def _chunked_traffic_programs(seed, n):
    """ordinary traffic (streams opened and reset, PRIORITY / RST_STREAM on idle streams, PINGs, unknown frame types, DATA)
    cut into deliveries that end inside frame payloads, inside frame headers and on frame boundaries"""
    import random
    import wire
    blk = wire.hpack_literal_block
    REQB = blk([(b':method', b'GET'), (b':scheme', b'https'), (b':path', b'/'), (b':authority', b'x')])
    for k in range(n):
        rng = random.Random((seed * 982451653 + k) & 0xFFFFFFFF)
        ops = [{'op': 'new', 'c': 0, 'client': False, 'vo': 1, 'no': 1, 'vi': 1, 'ni': 1, 'enc': None},
               {'op': 'initiate_connection', 'c': 0},
               {'op': 'recv', 'c': 0, 'data': wire.PREFACE + wire.settings_frame([]) + wire.settings_frame(ack=True)}]
        stream = b''
        sid = 1
        for _ in range(rng.randrange(5, 40)):
            kind = rng.choice(['open', 'open', 'ping', 'prio', 'rst-idle', 'ext', 'data'])
            if kind == 'open':
                stream += wire.headers_frames(sid, REQB, end_stream=rng.random() < 0.3)
                if rng.random() < 0.7:
                    stream += wire.rst_stream(sid, 8)
                sid += 2
            elif kind == 'ping':
                stream += wire.ping(b'p' * 8)
            elif kind == 'prio':
                stream += wire.priority(sid + 100, 0, 16)
            elif kind == 'rst-idle':
                pass
            elif kind == 'ext':
                stream += wire.frame(0x42, 0, 0, b'e' * rng.choice([0, 5, 300]))
            elif sid > 1:
                stream += wire.data_frame(sid - 2, b'd' * rng.choice([0, 10, 2000]))
        # cuts: mostly inside payloads (header complete, payload not)
        pos = 0
        frames = wire.split_frames(stream)
        offs, o = [], 0
        for f in frames:
            offs.append((o, 9 + len(f['payload'])))
            o += 9 + len(f['payload'])
        cuts = set()
        for (o, ln) in offs:
            r = rng.random()
            if r < 0.5 and ln > 10:
                cuts.add(o + 9 + rng.randrange(1, ln - 9))       # inside the payload
            elif r < 0.6:
                cuts.add(o + rng.randrange(1, 9))                # inside the header
            elif r < 0.7:
                cuts.add(o + ln)                                 # on the boundary
        prev = 0
        for cpos in sorted(cuts) + [len(stream)]:
            if cpos > prev:
                ops.append({'op': 'recv', 'c': 0, 'data': stream[prev:cpos]})
                prev = cpos
        yield 'chunks-%d' % k, ops


def special_C27(seed, tier, model, deadline):
    """histories that run into the two caps and go on (see _after_limit_programs), and traffic cut inside frame payloads
    (see _chunked_traffic_programs), under oracle_C27"""
    from oracles import oracle_C27
    res = _run_directed('C27', oracle_C27, _after_limit_programs, 'after_limit')(seed, tier, model, deadline, 60, 1200)
    more = _run_directed('C27', oracle_C27, _chunked_traffic_programs, 'chunked_traffic')(seed, tier, model, deadline, 80, 1500)
    res['failures'] += more['failures']
    res['mismatches'] += more['mismatches']
    res['coverage'].update(more['coverage'])
    return res


# ---------------------------------------------------------------------------
# C09: stream ids that are not idle any more
# ---------------------------------------------------------------------------
def _id_reuse_programs(seed, n):
    """streams of both directions in every final situation (open, ended, reset by either side; still in the table or
    cleaned out of it), then the peer's HEADERS and PUSH_PROMISE frames that use, or promise, ids at and below the
    high-water marks: closed ones, live ones, skipped ones, ids of the wrong parity, just above the mark"""
    import random
    import wire
    blk = wire.hpack_literal_block
    REQ = [(b':method', b'GET', False), (b':scheme', b'https', False), (b':path', b'/', False), (b':authority', b'x', False)]
    REQB = blk([(h[0], h[1]) for h in REQ])
    RESP = blk([(b':status', b'200')])
    for k in range(n):
        rng = random.Random((seed * 67867967 + k) & 0xFFFFFFFF)
        client = rng.random() < 0.7
        ops = [{'op': 'new', 'c': 0, 'client': client, 'vo': 1, 'no': 1, 'vi': 1, 'ni': 1, 'enc': None},
               {'op': 'initiate_connection', 'c': 0},
               {'op': 'recv', 'c': 0, 'data': (b'' if client else wire.PREFACE) + wire.settings_frame([]) + wire.settings_frame(ack=True)}]
        mine, theirs = [], []
        if client:
            for sid in (1, 3, 5):
                ops.append({'op': 'send_headers', 'c': 0, 'sid': sid, 'headers': REQ, 'es': rng.random() < 0.5})
                mine.append(sid)
            # the peer promises 2, 4, (skips 6), 8 on stream 1
            for p in (2, 4, 8):
                ops.append({'op': 'recv', 'c': 0, 'data': wire.push_promise_frames(1, p, REQB)})
                theirs.append(p)
        else:
            for sid in (1, 3, 7):
                ops.append({'op': 'recv', 'c': 0, 'data': wire.headers_frames(sid, REQB, end_stream=rng.random() < 0.5)})
                theirs.append(sid)
            for p in (2, 4):
                ops.append({'op': 'push_stream', 'c': 0, 'sid': 1, 'promised': p, 'headers': REQ})
                mine.append(p)
        for sid in theirs + mine[1:]:
            fate = rng.choice(['open', 'reset-local', 'reset-peer', 'ended', 'ended'])
            if fate == 'reset-local':
                ops.append({'op': 'reset_stream', 'c': 0, 'sid': sid, 'code': rng.choice([0, 8])})
            elif fate == 'reset-peer':
                ops.append({'op': 'recv', 'c': 0, 'data': wire.rst_stream(sid, 8)})
            elif fate == 'ended':
                if client and sid in theirs:
                    ops.append({'op': 'recv', 'c': 0, 'data': wire.headers_frames(sid, RESP, end_stream=True)})
                elif client:
                    ops.append({'op': 'recv', 'c': 0, 'data': wire.headers_frames(sid, RESP, end_stream=True)})
                    ops.append({'op': 'end_stream', 'c': 0, 'sid': sid})
                elif sid in theirs:
                    ops.append({'op': 'send_headers', 'c': 0, 'sid': sid, 'headers': [(b':status', b'200', False)], 'es': True})
                    ops.append({'op': 'recv', 'c': 0, 'data': wire.data_frame(sid, b'', end_stream=True)})
                else:
                    ops.append({'op': 'send_headers', 'c': 0, 'sid': sid, 'headers': [(b':status', b'200', False)], 'es': True})
        if rng.random() < 0.6:
            ops.append({'op': 'q', 'c': 0, 'what': rng.choice(['open_out', 'open_in'])})
        pool = sorted(set(theirs + mine + [6, 9, 10, 11, 12, 0, 100]))
        for _ in range(rng.randrange(1, 4)):
            target = rng.choice(pool)
            if client and rng.random() < 0.6:
                parent = 1
                ops.append({'op': 'recv', 'c': 0, 'data': wire.push_promise_frames(parent, target, REQB)})
            else:
                ops.append({'op': 'recv', 'c': 0, 'data': wire.headers_frames(target or 1, RESP if client else REQB, end_stream=rng.random() < 0.5)})
            ops.append({'op': 'q', 'c': 0, 'what': 'next_stream_id'})
        yield 'ids-%d' % k, ops


def special_C09(seed, tier, model, deadline):
    """ids that are not idle any more, used and promised again (see _id_reuse_programs) under oracle_C09"""
    from oracles import oracle_C09
    return _run_directed('C09', oracle_C09, _id_reuse_programs, 'id_reuse')(seed, tier, model, deadline, 300)


# ---------------------------------------------------------------------------
# C07: what the peer may do with a stream id a refused call left behind
# ---------------------------------------------------------------------------
def _orphan_id_programs(seed, n):
    """a client call that would open a stream is refused (by validation, by a value that is not a string, by the limit),
    the application carries on, and the peer sends HEADERS / DATA / PUSH_PROMISE on the id that was not used — with
    request-shaped and response-shaped blocks, inbound validation on and off"""
    import random
    import wire
    blk = wire.hpack_literal_block
    REQ = [(b':method', b'GET', False), (b':scheme', b'https', False), (b':path', b'/', False), (b':authority', b'x', False)]
    REQB = blk([(h[0], h[1]) for h in REQ])
    RESP = blk([(b':status', b'200')])
    for k in range(n):
        rng = random.Random((seed * 217645199 + k) & 0xFFFFFFFF)
        ops = [{'op': 'new', 'c': 0, 'client': True, 'vo': 1, 'no': 1, 'vi': rng.choice([1, 1, 0]), 'ni': 1, 'enc': None},
               {'op': 'initiate_connection', 'c': 0},
               {'op': 'recv', 'c': 0, 'data': wire.settings_frame([]) + wire.settings_frame(ack=True)}]
        first = rng.choice([1, 1, 3])
        if first == 3:
            ops.append({'op': 'send_headers', 'c': 0, 'sid': 1, 'headers': REQ, 'es': True})
        bad = rng.choice([
            REQ + [(b'content-length', 42, False)], REQ + [(b'x', None, False)], REQ + [('x', 7, False)],
            REQ[1:], REQ + [(b'Connection', b'close', False)], [(b':method', 'GET', False)] + REQ[1:],
            REQ + [(b'te', b'gzip', False)], REQ + [(b':path', b'/twice', False)]])
        ops.append({'op': 'send_headers', 'c': 0, 'sid': first, 'headers': bad, 'es': rng.random() < 0.5})
        if rng.random() < 0.6:
            ops.append({'op': 'send_headers', 'c': 0, 'sid': first + 2, 'headers': REQ, 'es': True})     # the retry
        for _ in range(rng.randrange(1, 4)):
            kind = rng.choice(['req', 'req', 'resp', 'data', 'push', 'rst', 'wu'])
            d = {'req': wire.headers_frames(first, REQB, end_stream=rng.random() < 0.5),
                 'resp': wire.headers_frames(first, RESP, end_stream=rng.random() < 0.5),
                 'data': wire.data_frame(first, b'abc'), 'push': wire.push_promise_frames(first, 2, REQB),
                 'rst': wire.rst_stream(first, 0), 'wu': wire.window_update(first, 5)}[kind]
            ops.append({'op': 'recv', 'c': 0, 'data': d})
        yield 'orphan-%d' % k, ops


def _refused_push_programs(seed, n):
    """a client whose request is in every final situation (reset by the application and still in the table, reset and
    cleaned out of it, response ended while the request body is still going out, fully ended) receives a PUSH_PROMISE on
    it — refused or accepted — and then HEADERS (request-shaped and response-shaped), DATA and trailers on the
    promised id, inbound validation on and off"""
    import random
    import wire
    blk = wire.hpack_literal_block
    REQ = [(b':method', b'GET', False), (b':scheme', b'https', False), (b':path', b'/', False), (b':authority', b'x', False)]
    REQB = blk([(h[0], h[1]) for h in REQ])
    RESP = blk([(b':status', b'200')])
    for k in range(n):
        rng = random.Random((seed * 40503 + k * 7 + 3) & 0xFFFFFFFF)
        ops = [{'op': 'new', 'c': 0, 'client': True, 'vo': 1, 'no': 1, 'vi': rng.choice([1, 1, 0]), 'ni': 1, 'enc': None},
               {'op': 'initiate_connection', 'c': 0},
               {'op': 'recv', 'c': 0, 'data': wire.settings_frame([]) + wire.settings_frame(ack=True)}]
        fate = rng.choice(['reset', 'reset', 'reset-forgotten', 'resp-ended', 'ended', 'open'])
        ops.append({'op': 'send_headers', 'c': 0, 'sid': 1, 'headers': REQ, 'es': fate in ('ended', 'reset') and rng.random() < 0.5})
        if fate.startswith('reset'):
            ops.append({'op': 'reset_stream', 'c': 0, 'sid': 1, 'code': rng.choice([0, 8])})
            if fate == 'reset-forgotten':
                ops.append({'op': 'q', 'c': 0, 'what': 'open_out'})
        elif fate in ('resp-ended', 'ended'):
            ops.append({'op': 'recv', 'c': 0, 'data': wire.headers_frames(1, RESP, end_stream=True)})
            if fate == 'ended':
                ops.append({'op': 'end_stream', 'c': 0, 'sid': 1})
        promised = rng.choice([2, 2, 4])
        ops.append({'op': 'recv', 'c': 0, 'data': wire.push_promise_frames(1, promised, REQB)})
        if rng.random() < 0.3:
            ops.append({'op': 'data_to_send', 'c': 0, 'amount': None})
        for _ in range(rng.randrange(1, 4)):
            kind = rng.choice(['req', 'req', 'resp', 'resp', 'data', 'trailers', 'wu'])
            d = {'req': wire.headers_frames(promised, REQB, end_stream=rng.random() < 0.4),
                 'resp': wire.headers_frames(promised, RESP, end_stream=rng.random() < 0.4),
                 'data': wire.data_frame(promised, b'abc', end_stream=rng.random() < 0.3),
                 'trailers': wire.headers_frames(promised, blk([(b'x-t', b'1')]), end_stream=True),
                 'wu': wire.window_update(promised, 5)}[kind]
            ops.append({'op': 'recv', 'c': 0, 'data': d})
        yield 'refused-push-%d' % k, ops


def _c07_programs(seed, n):
    h = n // 2
    for x in _orphan_id_programs(seed, n - h):
        yield x
    for x in _refused_push_programs(seed, h):
        yield x


def special_C07(seed, tier, model, deadline):
    """peer frames on ids that refused calls did not use (see _orphan_id_programs) and on ids promised by pushes on
    finished requests (see _refused_push_programs) under oracle_C07"""
    from oracles import oracle_C07
    return _run_directed('C07', oracle_C07, _c07_programs, 'orphan_id')(seed, tier, model, deadline, 250)


def special_C06(seed, tier, model, deadline):
    """stray frames of every type for streams in every final situation, the connection still open (the histories of
    _closed_conn_programs without the closing step) under oracle_C06"""
    from oracles import oracle_C06
    return _run_directed('C06', oracle_C06, lambda s_, n_: _closed_conn_programs(s_, n_, close=False), 'stray_frames')(seed, tier, model, deadline, 250)


# ---------------------------------------------------------------------------
# C23: priority information in every shape
# ---------------------------------------------------------------------------
def _priority_shape_programs(seed, n):
    """received: PRIORITY frames and HEADERS frames with priority fields — in one frame, cut into CONTINUATION frames, padded
    — on requests, responses and trailers, for idle, live and closed streams; sent: prioritize() and send_headers with
    priority arguments (all defaults, boundaries, exclusive without a parent) with header blocks small and larger than a
    frame"""
    import random
    import wire
    blk = wire.hpack_literal_block
    REQ = [(b':method', b'GET', False), (b':scheme', b'https', False), (b':path', b'/', False), (b':authority', b'x', False)]
    for k in range(n):
        rng = random.Random((seed * 472882027 + k) & 0xFFFFFFFF)
        client = rng.random() < 0.5
        ops = [{'op': 'new', 'c': 0, 'client': client, 'vo': 1, 'no': 1, 'vi': 1, 'ni': 1, 'enc': None},
               {'op': 'initiate_connection', 'c': 0},
               {'op': 'recv', 'c': 0, 'data': (b'' if client else wire.PREFACE) + wire.settings_frame([]) + wire.settings_frame(ack=True)}]
        prio = lambda: (rng.choice([0, 0, 1, 3, 5, 7, 2147483647]), rng.choice([1, 16, 200, 256]), rng.random() < 0.5)
        big = [(b'x-fill-%d' % j, b'v' * 3000) for j in range(rng.choice([0, 0, 7]))]
        if client:
            ops.append({'op': 'send_headers', 'c': 0, 'sid': 1, 'headers': REQ, 'es': False})
            for _ in range(rng.randrange(1, 5)):
                w = rng.choice(['prioritize', 'send'])
                pw = rng.choice([None, 1, 16, 256]); pd = rng.choice([None, 0, 1, 3, 9]); pe = rng.choice([None, True, False])
                if w == 'prioritize':
                    ops.append({'op': 'prioritize', 'c': 0, 'sid': rng.choice([1, 3, 5, 9]), 'pw': pw, 'pd': pd, 'pe': pe})
                else:
                    sid = rng.choice([3, 5, 7])
                    ops.append({'op': 'send_headers', 'c': 0, 'sid': sid, 'headers': REQ + [(a, b, False) for a, b in big],
                                'es': rng.random() < 0.5, 'pw': pw, 'pd': pd, 'pe': pe})
            # the response, with priority fields, in every shape
            d, wgt, ex = prio()
            ops.append({'op': 'recv', 'c': 0, 'data': wire.headers_frames(1, blk([(b':status', b'200')] + big), prio=(d if d != 1 else 3, wgt, ex),
                                                                        max_frag=rng.choice([None, None, 5, 1000]), pad=rng.choice([None, None, 4]))})
        else:
            for sid in (1, 3):
                d, wgt, ex = prio()
                if d == sid:
                    d = 0
                block = blk([(h[0], h[1]) for h in REQ] + big)
                ops.append({'op': 'recv', 'c': 0, 'data': wire.headers_frames(sid, block, end_stream=rng.random() < 0.3, prio=(d, wgt, ex),
                                                                            max_frag=rng.choice([None, None, 7, 16384]), pad=rng.choice([None, None, 9]))})
            for _ in range(rng.randrange(1, 5)):
                sid = rng.choice([1, 3, 5, 99])
                d, wgt, ex = prio()
                ops.append({'op': 'recv', 'c': 0, 'data': wire.priority(sid, d if d != sid else 0, wgt, ex)})
            if rng.random() < 0.5:
                d, wgt, ex = prio()
                ops.append({'op': 'recv', 'c': 0, 'data': wire.headers_frames(1, blk([(b'x-trailer', b'1')]), end_stream=True, prio=(d if d != 1 else 0, wgt, ex),
                                                                            max_frag=rng.choice([None, 3]))})
        if rng.random() < 0.25:
            # last of all, a stream that depends on itself — by a PRIORITY frame or by the fields of a HEADERS frame, on a
            # new, a live or a finished stream (a connection error either way)
            d, wgt, ex = prio()
            if ops[0]['client']:
                sid = rng.choice([1, 1, 2])
                block = blk([(b':status', b'200')])
            else:
                sid = rng.choice([1, 7, 7, 9])
                block = blk([(h[0], h[1]) for h in REQ]) if sid > 3 else blk([(b'x-trailer', b'2')])
            if rng.random() < 0.3:
                ops.append({'op': 'recv', 'c': 0, 'data': wire.priority(sid, sid, wgt, ex)})
            else:
                ops.append({'op': 'recv', 'c': 0, 'data': wire.headers_frames(sid, block, end_stream=rng.random() < 0.5, prio=(sid, wgt, ex),
                                                                            max_frag=rng.choice([None, None, 6]), pad=rng.choice([None, None, 3]))})
        yield 'prio-%d' % k, ops


def special_C23(seed, tier, model, deadline):
    """priority information in every shape (see _priority_shape_programs) under oracle_C23"""
    from oracles import oracle_C23
    return _run_directed('C23', oracle_C23, _priority_shape_programs, 'priority_shapes')(seed, tier, model, deadline, 250)


# ---------------------------------------------------------------------------
# C24: whose origin a stream-bound ALTSVC speaks for
# ---------------------------------------------------------------------------
def _altsvc_origin_programs(seed, n):
    """a client with requests for different authorities and promises for yet other ones (cross-origin pushes), then ALTSVC
    frames on every stream at every moment of its life (reserved, open, after the response headers, closed) and on
    stream 0, with and without an origin field"""
    import random
    import wire
    blk = wire.hpack_literal_block
    for k in range(n):
        rng = random.Random((seed * 334214459 + k) & 0xFFFFFFFF)
        ops = [{'op': 'new', 'c': 0, 'client': True, 'vo': 1, 'no': 1, 'vi': 1, 'ni': 1, 'enc': rng.choice([None, 'utf-8'])},
               {'op': 'initiate_connection', 'c': 0},
               {'op': 'recv', 'c': 0, 'data': wire.settings_frame([]) + wire.settings_frame(ack=True)}]
        hosts = [b'www.example.com', b'static.example.net', b'api.example.org']
        auth = {}
        for sid in (1, 3):
            a = rng.choice(hosts)
            order = [(b':method', b'GET'), (b':scheme', b'https'), (b':authority', a), (b':path', b'/')]
            if rng.random() < 0.3:
                rng.shuffle(order)
            ops.append({'op': 'send_headers', 'c': 0, 'sid': sid, 'headers': [(n_, v_, False) for n_, v_ in order], 'es': True})
            auth[sid] = a
        for p_ in (2, 4):
            a = rng.choice(hosts)
            parent = rng.choice([1, 3])
            ops.append({'op': 'recv', 'c': 0, 'data': wire.push_promise_frames(parent, p_, blk([(b':method', b'GET'), (b':scheme', b'https'), (b':path', b'/p'), (b':authority', a)]))})
            auth[p_] = a
        for _ in range(rng.randrange(2, 8)):
            sid = rng.choice([0, 1, 2, 3, 4, 4, 2])
            what = rng.choice(['altsvc', 'altsvc', 'altsvc', 'response', 'end'])
            if what == 'altsvc':
                ops.append({'op': 'recv', 'c': 0, 'data': wire.altsvc(sid, rng.choice([b'', b'', b'other.example']) if sid else rng.choice([b'example.com', b'']), b'h2=":8443"')})
            elif what == 'response' and sid:
                ops.append({'op': 'recv', 'c': 0, 'data': wire.headers_frames(sid, blk([(b':status', b'200')]))})
            elif sid:
                ops.append({'op': 'recv', 'c': 0, 'data': wire.data_frame(sid, b'', end_stream=True)})
        yield 'origin-%d' % k, ops


def _altsvc_send_programs(seed, n):
    """a server with requests at every moment of their life (just received, answered, ended, reset, forgotten) and a
    pushed stream calls advertise_alternative_service with every combination of origin (absent, empty, a name, one
    that fills the frame) and stream id (absent, 0, live, closed, unknown), the field value empty, ordinary and within
    two bytes of what still fits the peer's frame size in either form"""
    import random
    import wire
    blk = wire.hpack_literal_block
    REQ = [(b':method', b'GET', False), (b':scheme', b'https', False), (b':path', b'/', False), (b':authority', b'x', False)]
    REQB = blk([(h[0], h[1]) for h in REQ])
    for k in range(n):
        rng = random.Random((seed * 9176 + k * 13 + 5) & 0xFFFFFFFF)
        limit = rng.choice([16384, 16384, 16384, 20000])
        peer = [(5, limit)] if limit != 16384 else []
        ops = [{'op': 'new', 'c': 0, 'client': False, 'vo': 1, 'no': 1, 'vi': 1, 'ni': 1, 'enc': None},
               {'op': 'initiate_connection', 'c': 0},
               {'op': 'recv', 'c': 0, 'data': wire.PREFACE + wire.settings_frame(peer) + wire.settings_frame(ack=True)}]
        for sid in (1, 3, 5):
            ops.append({'op': 'recv', 'c': 0, 'data': wire.headers_frames(sid, REQB, end_stream=rng.random() < 0.6)})
        if rng.random() < 0.6:
            ops.append({'op': 'push_stream', 'c': 0, 'sid': 1, 'promised': 2, 'headers': REQ})
        fate = rng.choice(['fresh', 'fresh', 'answered', 'ended', 'reset', 'forgotten'])
        if fate == 'answered':
            ops.append({'op': 'send_headers', 'c': 0, 'sid': 3, 'headers': [(b':status', b'200', False)], 'es': False})
        elif fate == 'ended':
            ops.append({'op': 'send_headers', 'c': 0, 'sid': 3, 'headers': [(b':status', b'200', False)], 'es': True})
        elif fate in ('reset', 'forgotten'):
            ops.append({'op': 'reset_stream', 'c': 0, 'sid': 3, 'code': 0})
            if fate == 'forgotten':
                ops.append({'op': 'q', 'c': 0, 'what': 'open_in'})
        for _ in range(rng.randrange(2, 6)):
            origin = rng.choice([None, None, None, b'', b'example.com', b'o' * 300])
            sid = rng.choice([None, None, 0, 1, 2, 3, 3, 5, 7, 9])
            room = limit - 2 - (len(origin) if origin else 0)
            field = rng.choice([b'h2=":443"; ma=60', b'', b'f' * max(0, room + rng.choice([-2, -1, 0, 0, 1, 2, 3])),
                                b'f' * max(0, room + rng.choice([-1, 0, 1, 2]))])
            ops.append({'op': 'altsvc', 'c': 0, 'field': field, 'origin': origin, 'sid': sid})
            if rng.random() < 0.3:
                ops.append({'op': 'data_to_send', 'c': 0, 'amount': None})
        yield 'altsvc-send-%d' % k, ops


def _c24_programs(seed, n):
    h = n // 3
    for x in _altsvc_origin_programs(seed, n - h):
        yield x
    for x in _altsvc_send_programs(seed, h):
        yield x


def special_C24(seed, tier, model, deadline):
    """stream-bound ALTSVC on requests and cross-origin pushes (see _altsvc_origin_programs) and a server's
    advertise_alternative_service calls in every shape (see _altsvc_send_programs) under oracle_C24"""
    from oracles import oracle_C24
    return _run_directed('C24', oracle_C24, _c24_programs, 'altsvc_origin')(seed, tier, model, deadline, 250)


# ---------------------------------------------------------------------------
# C25: every HTTP2-Settings value a client can produce
# ---------------------------------------------------------------------------
def _upgrade_value_programs(seed, n):
    """a client whose application configured its initial settings with values from all over the legal ranges (so that the
    base64url text of the HTTP2-Settings value runs through the whole alphabet, `-` and `_` included) upgrades; a fresh
    server is handed exactly that value; then the first exchanges on stream 1 and the first new stream ids"""
    import random
    for k in range(n):
        rng = random.Random((seed * 141650939 + k) & 0xFFFFFFFF)
        def val(key):
            r = rng.random()
            lo, hi = {1: (0, 2**32 - 1), 2: (0, 1), 3: (0, 2**32 - 1), 4: (0, 2**31 - 1), 5: (16384, 2**24 - 1), 6: (0, 2**32 - 1), 8: (0, 1)}[key]
            if r < 0.35:
                return rng.randrange(lo, hi + 1)
            if r < 0.7:
                v = rng.randrange(lo, hi + 1)
                v = v - (v % 64) + rng.choice([62, 63])          # the two base64 digits that differ between the alphabets
                return min(max(v, lo), hi)
            return rng.choice([lo, hi, min(hi, lo + 62), min(hi, 65534), min(hi, max(lo, 16382 + 16384))])
        keys = rng.sample([1, 3, 4, 5, 6], rng.randrange(1, 5)) + ([2] if rng.random() < 0.3 else []) + ([8] if rng.random() < 0.2 else [])
        ls = [(key, val(key)) for key in keys]
        ops = [{'op': 'new', 'c': 0, 'client': True, 'vo': 1, 'no': 1, 'vi': 1, 'ni': 1, 'enc': None, 'ls': ls},
               {'op': 'new', 'c': 1, 'client': False, 'vo': 1, 'no': 1, 'vi': 1, 'ni': 1, 'enc': None},
               {'op': 'initiate_upgrade', 'c': 0, 'settings_header': None},
               {'op': 'initiate_upgrade', 'c': 1, 'settings_header': '@0'},
               {'op': 'xfer', 'c': 0, 'to': 1}, {'op': 'xfer', 'c': 1, 'to': 0},
               {'op': 'q', 'c': 0, 'what': 'next_stream_id'}, {'op': 'q', 'c': 1, 'what': 'next_stream_id'},
               {'op': 'send_headers', 'c': 1, 'sid': 1, 'headers': [(b':status', b'200', False)], 'es': rng.random() < 0.5},
               {'op': 'xfer', 'c': 1, 'to': 0}]
        yield 'upgrade-%d' % k, ops


def special_C25(seed, tier, model, deadline):
    """upgrades with HTTP2-Settings values from all over the legal ranges (see _upgrade_value_programs) under oracle_C25"""
    from oracles import oracle_C25
    return _run_directed('C25', oracle_C25, _upgrade_value_programs, 'upgrade_values')(seed, tier, model, deadline, 250)


# ---------------------------------------------------------------------------
# C12: every way a setting value reaches the library
# ---------------------------------------------------------------------------
def _upgrade_settings_programs(seed, n):
    """a server's initiate_upgrade_connection with HTTP2-Settings values built from every setting at and around its
    limits, known and unknown identifiers, alone and in lists (the first invalid one decides)"""
    import base64
    import random
    import struct
    VALUES = {1: [0, 4096, 2**32 - 1], 2: [0, 1, 2, 2**32 - 1], 3: [0, 100, 2**32 - 1], 4: [0, 65535, 2**31 - 1, 2**31, 2**32 - 1],
              5: [0, 16383, 16384, 2**24 - 1, 2**24, 2**32 - 1], 6: [0, 2**32 - 1], 8: [0, 1, 2], 9: [7], 0x102: [5], 0x304: [2**31],
              0xFF05: [0], 0x1008: [2], 0xFFFF: [2**32 - 1]}
    for k in range(n):
        rng = random.Random((seed * 735632791 + k) & 0xFFFFFFFF)
        items = []
        for _ in range(rng.choice([1, 1, 2, 3])):
            key = rng.choice(sorted(VALUES))
            items.append((key, rng.choice(VALUES[key])))
        body = b''.join(struct.pack('>HI', a, b) for a, b in items)
        hdr = base64.urlsafe_b64encode(body)
        if rng.random() < 0.3:
            hdr = hdr.rstrip(b'=')
            hdr += b'=' * (-len(hdr) % 4)
        ops = [{'op': 'new', 'c': 0, 'client': False, 'vo': 1, 'no': 1, 'vi': 1, 'ni': 1, 'enc': None},
               {'op': 'initiate_upgrade', 'c': 0, 'settings_header': hdr},
               {'op': 'data_to_send', 'c': 0, 'amount': None}]
        yield 'upgrade-settings-%d' % k, ops


def special_C12(seed, tier, model, deadline):
    """setting values at and around every limit through received frames (walks, see _settings_walk_programs) and through
    the HTTP2-Settings value of an upgrade (see _upgrade_settings_programs) under oracle_C12"""
    from oracles import oracle_C12
    res = _run_directed('C12', oracle_C12, _settings_walk_programs, 'settings_walk')(seed, tier, model, deadline, 150)
    more = _run_directed('C12', oracle_C12, _upgrade_settings_programs, 'upgrade_settings')(seed, tier, model, deadline, 200)
    res['failures'] += more['failures']
    res['mismatches'] += more['mismatches']
    res['coverage'].update(more['coverage'])
    return res
