/-
  The frame handlers leave the output buffer, the history of sent frames and the frame buffer alone (they return the
  frames they want written; `_receive_frame` writes them).  Same lemma-per-primitive scheme as `PS` in RecvEmits, for
  the triple `Conn.k3`.  Needed where a handler is called outside `receive_data`: `initiate_upgrade_connection` hands
  the decoded HTTP2-Settings to `_receive_settings_frame`.
-/
import H2.Proofs.RecvEmits
namespace H2
open H2.Gen H2.Conn

/-- output buffer, history of sent frames, frame buffer -/
def Conn.k3 (c : Conn) : Bytes × List Frame × FrameBuffer := (c.out, c.sent, c.fb)

section
variable {α : Type} {Q : α → Conn → Prop} {E : Exc → Conn → Prop}

theorem pk_connInput {Q : Unit → Conn → Prop} (i : ConnectionInputs) (c : Conn) (s0 : Bytes × List Frame × FrameBuffer) (h : c.k3 = s0)
    (hq : ∀ c', c'.k3 = s0 → Q () c') (he : ∀ e c', c'.k3 = s0 → E e c') : wp (connInput i) Q E c := by
  unfold wp connInput
  cases connTable c.cstate i with
  | none => exact he _ _ h
  | some t => exact hq _ h

theorem pk_withStream (sid : Int) (m : M Stream α) (c : Conn) (s0 : Bytes × List Frame × FrameBuffer) (h : c.k3 = s0)
    (hq : ∀ a c', c'.k3 = s0 → Q a c') (he : ∀ e c', c'.k3 = s0 → E e c') : wp (withStream sid m) Q E c := by
  rw [wp_withStream]
  cases c.streams.lookup sid with
  | none => exact he _ _ h
  | some st => exact wp_havoc (fun a s' => hq a _ h) (fun e s' => he e _ h)

theorem pk_getStreamById {Q : Unit → Conn → Prop} (sid : Int) (c : Conn) (s0 : Bytes × List Frame × FrameBuffer) (h : c.k3 = s0)
    (hq : ∀ c', c'.k3 = s0 → Q () c') (he : ∀ e c', c'.k3 = s0 → E e c') : wp (getStreamById sid) Q E c := by
  rw [wp_getStreamById_eq]
  repeat' split
  all_goals first | exact hq c h | exact he _ c h

theorem pk_openStreams {Q : Int → Conn → Prop} (r : Int) (c : Conn) (s0 : Bytes × List Frame × FrameBuffer) (h : c.k3 = s0)
    (hq : ∀ a c', c'.k3 = s0 → Q a c') : wp (openStreams r) Q E c := by
  simp only [wp, openStreams]; exact hq _ _ h

theorem pk_onConnWM {Q : Option Int → Conn → Prop} (f : WindowManager → WRes) (c : Conn) (s0 : Bytes × List Frame × FrameBuffer) (h : c.k3 = s0)
    (hq : ∀ a c', c'.k3 = s0 → Q a c') (he : ∀ e c', c'.k3 = s0 → E e c') : wp (onConnWM f) Q E c := by
  rw [wp_onConnWM]
  cases f c.inWM with
  | mk r w => cases r <;> first | exact hq _ _ h | exact he _ _ h

theorem pk_decodeHeaders {Q : List Header → Conn → Prop} (b : Bytes) (c : Conn) (s0 : Bytes × List Frame × FrameBuffer) (h : c.k3 = s0)
    (hq : ∀ a c', c'.k3 = s0 → Q a c') (he : ∀ e c', c'.k3 = s0 → E e c') : wp (decodeHeaders b) Q E c := by
  unfold decodeHeaders
  wps
  apply wp_havoc
  · intro r hp'
    cases r <;> wps <;> first | exact hq _ _ h | exact he _ _ h
  · intro e hp'; exact he _ _ h

theorem pk_fcc {Q : Unit → Conn → Prop} (o n : Int) (c : Conn) (s0 : Bytes × List Frame × FrameBuffer) (h : c.k3 = s0)
    (hq : ∀ c', c'.k3 = s0 → Q () c') (he : ∀ e c', c'.k3 = s0 → E e c') :
    wp (flowControlChangeFromSettings o n) Q E c := by
  unfold wp flowControlChangeFromSettings
  simp only
  cases flowControlChangeFromSettings.go (n - o) [] c.streams with
  | mk r ss => cases r <;> first | exact hq _ h | exact he _ _ h

theorem pk_ifcc {Q : Unit → Conn → Prop} (o n : Int) (c : Conn) (s0 : Bytes × List Frame × FrameBuffer) (h : c.k3 = s0)
    (hq : ∀ c', c'.k3 = s0 → Q () c') (he : ∀ e c', c'.k3 = s0 → E e c') :
    wp (inboundFlowControlChangeFromSettings o n) Q E c := by
  unfold wp inboundFlowControlChangeFromSettings
  simp only
  cases inboundFlowControlChangeFromSettings.go (n - o) [] c.streams with
  | mk r ss => cases r <;> first | exact hq _ h | exact he _ _ h

theorem pk_putStream {Q : Unit → Conn → Prop} (sid : Int) (st : Stream) (c : Conn) (s0 : Bytes × List Frame × FrameBuffer) (h : c.k3 = s0)
    (hq : ∀ c', c'.k3 = s0 → Q () c') : wp (putStream sid st) Q E c := by
  rw [wp_putStream]
  apply hq
  unfold putStream modifyS; simp only
  split <;> exact h

end

theorem localOtherChanges_k3 (ch : List (Int × Option Int × Int)) (c : Conn) : (localOtherChanges ch c).k3 = c.k3 := by
  unfold localOtherChanges; repeat' split
  all_goals rfl
theorem remoteOtherChanges_k3 (ch : List (Int × Option Int × Int)) (c : Conn) : (remoteOtherChanges ch c).k3 = c.k3 := by
  unfold remoteOtherChanges; repeat' split
  all_goals rfl

/-- close goals of the form `… .k3 = s0` / continue through a method that never writes frames -/
macro "pk_auto" : tactic => `(tactic|
  repeat' (first
    | assumption
    | (rw [localOtherChanges_k3]; assumption)
    | (rw [remoteOtherChanges_k3]; assumption)
    | (apply pk_connInput _ _ _ (by assumption))
    | (apply pk_withStream _ _ _ _ (by assumption))
    | (apply pk_getStreamById _ _ _ (by assumption))
    | (apply pk_openStreams _ _ _ (by assumption))
    | (apply pk_onConnWM _ _ _ (by assumption))
    | (apply pk_decodeHeaders _ _ _ (by assumption))
    | (apply pk_fcc _ _ _ _ (by assumption))
    | (apply pk_ifcc _ _ _ _ (by assumption))
    | (apply pk_putStream _ _ _ _ (by assumption))
    | (intro _)
    | wps
    | split))

abbrev PK (m : CM α) (c : Conn) : Prop := wp m (fun _ c' => c'.k3 = c.k3) (fun _ c' => c'.k3 = c.k3) c

theorem pk_ping (a : Bool) (p : Bytes) (c : Conn) : PK (receivePingFrame a p) c := by
  have h : c.k3 = c.k3 := rfl
  unfold PK receivePingFrame; pk_auto
theorem pk_priority (sid : Int) (p : Prio) (c : Conn) : PK (receivePriorityFrame sid p) c := by
  have h : c.k3 = c.k3 := rfl
  unfold PK receivePriorityFrame; pk_auto


-- (the GOAWAY handler clears the output buffer: no `pk_goaway`)
theorem pk_windowUpdate (sid incr : Int) (c : Conn) : PK (receiveWindowUpdateFrame sid incr) c := by
  have h : c.k3 = c.k3 := rfl
  unfold PK receiveWindowUpdateFrame; pk_auto
theorem pk_rst (sid code : Int) (c : Conn) : PK (receiveRstStreamFrame sid code) c := by
  have h : c.k3 = c.k3 := rfl
  unfold PK receiveRstStreamFrame; pk_auto
theorem pk_altsvc (sid : Int) (o f : Bytes) (c : Conn) : PK (receiveAltSvcFrame sid o f) c := by
  have h : c.k3 = c.k3 := rfl
  unfold PK receiveAltSvcFrame; pk_auto
theorem pk_cont (sid : Int) (c : Conn) : PK (receiveNakedContinuation sid) c := by
  have h : c.k3 = c.k3 := rfl
  unfold PK receiveNakedContinuation; pk_auto
theorem pk_data (sid : Int) (p : Bytes) (es : Bool) (fcl : Int) (c : Conn) : PK (receiveDataFrame sid p es fcl) c := by
  have h : c.k3 = c.k3 := rfl
  unfold PK receiveDataFrame; pk_auto
theorem pk_settings (ack : Bool) (items : List (Int × Int)) (c : Conn) : PK (receiveSettingsFrame ack items) c := by
  have h : c.k3 = c.k3 := rfl
  unfold PK receiveSettingsFrame localSettingsAcked acknowledgeSettings localWindowChange remoteWindowChange
  pk_auto

end H2
