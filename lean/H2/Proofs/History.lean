/-
  One induction for "P holds in every reachable state": a predicate that every public call keeps (whether the call
  returns or raises), that `receive_data` keeps for every byte string, that the fresh connection satisfies and that
  does not look at the HPACK oracles holds in every state of `C29.Reachable`.
-/
import H2.Props.C29
namespace H2
open H2.Gen H2.Conn

/-- every public call keeps `P`, whether it returns or raises -/
structure CallsKeep (P : Conn → Prop) : Prop where
  initiate : ∀ c, P c → wp initiateConnection (fun _ c' => P c') (fun _ c' => P c') c
  upgrade : ∀ hdr c, P c → wp (initiateUpgradeConnection (fun items => do let _ ← receiveSettingsFrame false items; pure ()) hdr)
      (fun _ c' => P c') (fun _ c' => P c') c
  sendHeaders : ∀ sid hs es pw pd pe c, P c → wp (sendHeaders sid hs es pw pd pe) (fun _ c' => P c') (fun _ c' => P c') c
  pushStream : ∀ sid p hs c, P c → wp (pushStream sid p hs) (fun _ c' => P c') (fun _ c' => P c') c
  sendData : ∀ sid d es pad c, P c → wp (sendData sid d es pad) (fun _ c' => P c') (fun _ c' => P c') c
  endStream : ∀ sid c, P c → wp (endStream sid) (fun _ c' => P c') (fun _ c' => P c') c
  incrementWindow : ∀ i sid c, P c → wp (incrementFlowControlWindow i sid) (fun _ c' => P c') (fun _ c' => P c') c
  ping : ∀ d c, P c → wp (ping d) (fun _ c' => P c') (fun _ c' => P c') c
  resetStream : ∀ sid code c, P c → wp (resetStream sid code) (fun _ c' => P c') (fun _ c' => P c') c
  closeConnection : ∀ code extra last c, P c → wp (closeConnection code extra last) (fun _ c' => P c') (fun _ c' => P c') c
  updateSettings : ∀ items c, P c → wp (updateSettings items) (fun _ c' => P c') (fun _ c' => P c') c
  altsvc : ∀ f o sid c, P c → wp (advertiseAlternativeService f o sid) (fun _ c' => P c') (fun _ c' => P c') c
  prioritize : ∀ sid w d e c, P c → wp (prioritize sid w d e) (fun _ c' => P c') (fun _ c' => P c') c
  ackData : ∀ size sid c, P c → wp (acknowledgeReceivedData size sid) (fun _ c' => P c') (fun _ c' => P c') c
  dataToSend : ∀ n c, P c → wp (dataToSend n) (fun _ c' => P c') (fun _ c' => P c') c
  clearOut : ∀ c, P c → wp clearOutboundDataBuffer (fun _ c' => P c') (fun _ c' => P c') c
  localWindow : ∀ sid c, P c → wp (localFlowControlWindow sid) (fun _ c' => P c') (fun _ c' => P c') c
  remoteWindow : ∀ sid c, P c → wp (remoteFlowControlWindow sid) (fun _ c' => P c') (fun _ c' => P c') c
  nextStreamId : ∀ c, P c → wp getNextAvailableStreamId (fun _ c' => P c') (fun _ c' => P c') c
  openOut : ∀ c, P c → wp openOutboundStreams (fun _ c' => P c') (fun _ c' => P c') c
  openIn : ∀ c, P c → wp openInboundStreams (fun _ c' => P c') (fun _ c' => P c') c

variable {P : Conn → Prop}

theorem keeps_of_run {α : Type} (f : α → Val) (m : CM α) (c : Conn)
    (hk : wp m (fun _ c' => P c') (fun _ c' => P c') c) :
    P (match m c with | (r, c') => (c', ({ res := resOf f r } : Obs))).1 := by
  unfold wp at hk
  cases hm : m c with
  | mk r c' =>
    rw [hm] at hk
    cases r <;> exact hk

theorem keeps_of_runU (m : CM Unit) (c : Conn) (hk : wp m (fun _ c' => P c') (fun _ c' => P c') c) : P (runU m c).1 :=
  keeps_of_run _ m c hk
theorem keeps_of_runI (m : CM Int) (c : Conn) (hk : wp m (fun _ c' => P c') (fun _ c' => P c') c) : P (runI m c).1 :=
  keeps_of_run _ m c hk

/-- one public call keeps `P` -/
theorem call_keeps (hP : CallsKeep P) (c : Conn) (op : Op) (hop : ∀ d, op ≠ .recv d) (h : P c) : P (step c op).1 := by
  cases op with
  | recv d => exact absurd rfl (hop d)
  | initiateConnection =>
    show P (runU initiateConnection c).1
    exact keeps_of_runU _ c (hP.initiate c h)
  | initiateUpgrade hdr => exact keeps_of_run _ _ c (hP.upgrade hdr c h)
  | sendHeaders sid hs es pw pd pe =>
    show P (runU (sendHeaders sid hs es pw pd pe) c).1
    exact keeps_of_runU _ c (hP.sendHeaders sid hs es pw pd pe c h)
  | pushStream sid p hs =>
    show P (runU (pushStream sid p hs) c).1
    exact keeps_of_runU _ c (hP.pushStream sid p hs c h)
  | sendData sid d es pad =>
    show P (runU (sendData sid d es pad) c).1
    exact keeps_of_runU _ c (hP.sendData sid d es pad c h)
  | endStream sid =>
    show P (runU (endStream sid) c).1
    exact keeps_of_runU _ c (hP.endStream sid c h)
  | incrementWindow i sid =>
    show P (runU (incrementFlowControlWindow i sid) c).1
    exact keeps_of_runU _ c (hP.incrementWindow i sid c h)
  | ping d =>
    show P (runU (ping d) c).1
    exact keeps_of_runU _ c (hP.ping d c h)
  | resetStream sid code =>
    show P (runU (resetStream sid code) c).1
    exact keeps_of_runU _ c (hP.resetStream sid code c h)
  | closeConnection code extra last =>
    show P (runU (closeConnection code extra last) c).1
    exact keeps_of_runU _ c (hP.closeConnection code extra last c h)
  | updateSettings items =>
    show P (runU (updateSettings items) c).1
    exact keeps_of_runU _ c (hP.updateSettings items c h)
  | altsvc f o sid =>
    show P (runU (advertiseAlternativeService f o sid) c).1
    exact keeps_of_runU _ c (hP.altsvc f o sid c h)
  | prioritize sid w d e =>
    show P (runU (prioritize sid w d e) c).1
    exact keeps_of_runU _ c (hP.prioritize sid w d e c h)
  | ackData size sid =>
    show P (runU (acknowledgeReceivedData size sid) c).1
    exact keeps_of_runU _ c (hP.ackData size sid c h)
  | dataToSend n => exact keeps_of_run _ _ c (hP.dataToSend n c h)
  | clearOut =>
    show P (runU clearOutboundDataBuffer c).1
    exact keeps_of_runU _ c (hP.clearOut c h)
  | query q =>
    cases q with
    | localWindow sid => exact keeps_of_runI _ c (hP.localWindow sid c h)
    | remoteWindow sid => exact keeps_of_runI _ c (hP.remoteWindow sid c h)
    | nextStreamId => exact keeps_of_runI _ c (hP.nextStreamId c h)
    | openOut => exact keeps_of_runI _ c (hP.openOut c h)
    | openIn => exact keeps_of_runI _ c (hP.openIn c h)
    | inboundWindow =>
      refine keeps_of_runI (do let c ← getS; pure c.inWM.current_window_size) c ?_
      wps; exact h

/-- `receive_data` as an operation keeps what `receiveData` keeps -/
theorem recv_keeps (hr : ∀ d c, P c → P (receiveData d c).2) (c : Conn) (d : Bytes) (h : P c) : P (step c (.recv d)).1 := by
  have := hr d c h
  simp only [step]
  cases hrd : receiveData d c with
  | mk r c' =>
    rw [hrd] at this
    cases r <;> exact this

/-- **every reachable state satisfies `P`** -/
theorem every_history (hP : CallsKeep P) (hr : ∀ d c, P c → P (receiveData d c).2)
    (hfeed : ∀ c dec, P c → P (C17.feed c [] dec)) (cfg : Config) (hinit : P (Conn.init cfg))
    (c : Conn) (h : C29.Reachable cfg c) : P c := by
  induction h with
  | init => exact hinit
  | call c op _ hop ih =>
    refine call_keeps hP c op ?_ ih
    intro d hd; subst hd; exact hop
  | recv c d dec _ _ ih => exact recv_keeps hr (C17.feed c [] dec) d (hfeed c dec ih)

end H2
