/-
  The connection's outbound flow-control window is a window: along every history it stays within
  `0 ≤ outbound_flow_control_window ≤ 2^31 - 1` (RFC 7540 §6.9.1 upper bound; the lower one is what C03 is about:
  the connection never owes the peer octets).

  Two things write it.  `send_data` subtracts the flow-controlled length after checking it against the window, and
  the WINDOW_UPDATE handler adds the increment through `guard_increment_window`.  The increment is at least 1 only
  because hyperframe's parser rejects the others, so the predicate is stable for parsed frames (`StableV`) and not for
  arbitrary ones.  Everything else leaves the field alone (`PO`, Proofs/OutWinKeeps, plus the public calls below).
-/
import H2.Proofs.OutWinKeeps
import H2.Proofs.Stable
import H2.Proofs.Initiate
import H2.Proofs.PushStream
namespace H2
open H2.Gen H2.Conn

/-- the connection's outbound window is a flow-control window -/
def CW (c : Conn) : Prop := 0 ≤ c.outWin ∧ c.outWin ≤ 2147483647

section
variable {α : Type} {Q : α → Conn → Prop} {E : Exc → Conn → Prop}

theorem po_prepare {Q : Unit → Conn → Prop} (fs : List Frame) (c : Conn) (s0 : Int) (h : c.outWin = s0)
    (hq : ∀ c', c'.outWin = s0 → Q () c') (he : ∀ e c', c'.outWin = s0 → E e c') : wp (prepareForSending fs) Q E c := by
  unfold prepareForSending
  wps
  split
  · exact hq c h
  · cases fs.mapM Frame.serialize? with
    | none => exact he _ c h
    | some bs =>
      simp only
      wps
      split
      · exact hq _ h
      · exact he _ _ h

theorem po_withStreamHp (sid : Int) (m : SH α) (c : Conn) (s0 : Int) (h : c.outWin = s0)
    (hq : ∀ a c', c'.outWin = s0 → Q a c') (he : ∀ e c', c'.outWin = s0 → E e c') : wp (withStreamHp sid m) Q E c := by
  rw [wp_withStreamHp]
  cases c.streams.lookup sid with
  | none => exact he _ _ h
  | some st => exact wp_havoc (fun a s' => hq a _ h) (fun e s' => he e _ h)

end

/-- a computation that leaves the connection window alone keeps `CW` -/
theorem cw_of_po {α : Type} {m : CM α} {c : Conn} (hm : PO m c) (h : CW c) :
    wp m (fun _ c' => CW c') (fun _ c' => CW c') c :=
  wp_mono hm (fun _ c' h' => by unfold CW; rw [h']; exact h) (fun _ c' h' => by unfold CW; rw [h']; exact h)

/-! ### the frame handlers -/

/-- the WINDOW_UPDATE handler, for an increment the parser lets through -/
theorem cw_windowUpdate (sid incr : Int) (hi : 1 ≤ incr) (c : Conn) (h : CW c) :
    wp (receiveWindowUpdateFrame sid incr) (fun _ c' => CW c') (fun _ c' => CW c') c := by
  unfold receiveWindowUpdateFrame
  wps
  have k : ∀ c1 : Conn, c1.outWin = c.outWin → CW c1 := fun c1 h1 => by unfold CW; rw [h1]; exact h
  apply po_connInput _ _ _ rfl
  · intro c1 h1
    split
    · try wps
      apply po_getStreamById _ _ _ h1
      · intro c2 h2
        apply po_withStream _ _ _ _ h2
        · intro _ c3 h3; exact k c3 h3
        · intro e c3 h3; split <;> (try wps) <;> exact k c3 h3
      · intro e c2 h2; split <;> (try wps) <;> exact k c2 h2
    · try wps
      have hg : guard_increment_window c1.outWin incr =
          if c1.outWin + incr > 2147483647 then .error (.h2 .FlowControlError) else .ok (c1.outWin + incr) := by
        unfold guard_increment_window; simp
      rw [hg]
      by_cases hgt : c1.outWin + incr > 2147483647
      · simp only [hgt, if_true]; wps; exact k c1 h1
      · simp only [hgt, if_false]
        wps
        have := h.1
        unfold CW
        simp only
        rw [h1]
        omega
  · intro e c1 h1; exact k c1 h1

theorem cw_dispatch (rf : RFrame) (c : Conn) (hrf : RFrameOk rf) (h : CW c) :
    wp (dispatch rf) (fun _ c' => CW c') (fun _ c' => CW c') c := by
  unfold dispatch
  split
  · exact cw_of_po (po_headers _ _ _ _ c) h
  · exact cw_of_po (po_push _ _ _ c) h
  · exact cw_of_po (po_settings _ _ c) h
  · exact cw_of_po (po_data _ _ _ _ c) h
  · rename_i sid incr heq; exact cw_windowUpdate sid incr (hrf.2 _ _ heq) c h
  · exact cw_of_po (po_ping _ _ c) h
  · exact cw_of_po (po_rst _ _ c) h
  · exact cw_of_po (po_priority _ _ c) h
  · exact cw_of_po (po_goaway _ _ _ c) h
  · exact cw_of_po (po_cont _ c) h
  · exact cw_of_po (po_altsvc _ _ _ c) h
  · wps; exact h

theorem stableV_CW : StableV CW where
  fb := fun _ _ h => h
  connInput := fun i c h => cw_of_po (by unfold PO; apply po_connInput _ _ _ rfl <;> (intros; assumption)) h
  prepare := fun fs c h => cw_of_po (by unfold PO; apply po_prepare _ _ _ rfl <;> (intros; assumption)) h
  dispatch := fun rf c hrf h => cw_dispatch rf c hrf h

/-- **`receive_data` keeps the connection window a window**, whatever the bytes -/
theorem receiveData_cw (d : Bytes) (c : Conn) (h : CW c) (hh : HbOk c.fb.headersBuffer) : CW (receiveData d c).2 :=
  stableV_receiveData stableV_CW d c h hh

/-! ### the public calls

  Every public call but `send_data` leaves the connection window alone. -/

macro "po_api" : tactic => `(tactic|
  repeat' (first
    | assumption
    | (apply po_connInput _ _ _ (by assumption))
    | (apply po_withStream _ _ _ _ (by assumption))
    | (apply po_withStreamHp _ _ _ _ (by assumption))
    | (apply po_getStreamById _ _ _ (by assumption))
    | (apply po_openStreams _ _ _ (by assumption))
    | (apply po_onConnWM _ _ _ (by assumption))
    | (apply po_prepare _ _ _ (by assumption))
    | (apply po_use (po_getOrCreateStream _ _) _ _ (by assumption))
    | (apply po_use (po_beginNewStream _ _) _ _ (by assumption))
    | (apply po_use (po_settings _ _) _ _ (by assumption))
    | (with_reducible apply ite_intro)
    | (intro _)
    | wps
    | split))

theorem po_apiPing (d : Bytes) (c : Conn) : PO (ping d) c := by
  have h : c.outWin = c.outWin := rfl
  unfold PO ping; po_api
theorem po_apiResetStream (sid code : Int) (c : Conn) : PO (resetStream sid code) c := by
  have h : c.outWin = c.outWin := rfl
  unfold PO resetStream; po_api
theorem po_apiEndStream (sid : Int) (c : Conn) : PO (endStream sid) c := by
  have h : c.outWin = c.outWin := rfl
  unfold PO endStream; po_api
set_option maxRecDepth 100000 in
theorem po_apiIncrementWindow (n : Int) (sid : Option Int) (c : Conn) : PO (incrementFlowControlWindow n sid) c := by
  have h : c.outWin = c.outWin := rfl
  unfold PO incrementFlowControlWindow; po_api
theorem po_apiCloseConnection (code : Int) (extra : Option Bytes) (last : Option Int) (c : Conn) :
    PO (closeConnection code extra last) c := by
  have h : c.outWin = c.outWin := rfl
  unfold PO closeConnection; po_api
theorem po_apiUpdateSettings (items : List (Int × Int)) (c : Conn) : PO (updateSettings items) c := by
  have h : c.outWin = c.outWin := rfl
  unfold PO updateSettings; po_api
set_option maxRecDepth 100000 in
theorem po_apiAltsvc (f : Bytes) (o : Option Bytes) (sid : Option Int) (c : Conn) :
    PO (advertiseAlternativeService f o sid) c := by
  suffices hs : ∀ s0, c.outWin = s0 → wp (advertiseAlternativeService f o sid) (fun _ c' => c'.outWin = s0)
      (fun _ c' => c'.outWin = s0) c from hs _ rfl
  intro s0 h
  unfold advertiseAlternativeService
  cases o with
  | none =>
    cases sid with
    | none => wps; simp only [Option.isSome_none, Bool.and_self, Bool.false_eq_true, if_false, Option.isNone_none, if_true]; exact h
    | some s =>
      wps
      simp only [Option.isSome_none, Bool.false_and, Bool.false_eq_true, if_false, Option.isNone_none, Option.isNone_some,
        Bool.and_false]
      po_api
  | some ov =>
    wps
    cases sid with
    | some s => simp only [Option.isSome_some, Bool.and_self, if_true]; exact h
    | none =>
      simp only [Option.isSome_some, Option.isSome_none, Bool.and_false, Bool.false_eq_true, if_false, Option.isNone_some,
        Bool.false_and]
      with_reducible apply ite_intro
      · intro _; exact h
      intro hx; clear hx
      with_reducible apply ite_intro
      · intro _; exact h
      intro hx; clear hx
      with_reducible apply ite_intro
      · intro _; exact h
      intro hx; clear hx
      apply po_connInput _ _ _ h
      · intro c1 h1
        wps
        generalize [Frame.altsvc 0 ov f] = fs
        apply po_prepare _ _ _ h1
        · intro _ h2; exact h2
        · intro _ _ h2; exact h2
      · intro _ _ h2; exact h2
theorem po_apiPrioritize (sid : Int) (w d : Option Int) (e : Option Bool) (c : Conn) : PO (prioritize sid w d e) c := by
  have h : c.outWin = c.outWin := rfl
  unfold PO prioritize; po_api
theorem po_apiAckData (size sid : Int) (c : Conn) : PO (acknowledgeReceivedData size sid) c := by
  have h : c.outWin = c.outWin := rfl
  unfold PO acknowledgeReceivedData ackCredit; po_api
theorem po_apiDataToSend (n : Option Int) (c : Conn) : PO (dataToSend n) c := by
  have h : c.outWin = c.outWin := rfl
  unfold PO dataToSend; po_api
theorem po_apiClearOut (c : Conn) : PO clearOutboundDataBuffer c := by
  have h : c.outWin = c.outWin := rfl
  unfold PO clearOutboundDataBuffer; po_api
theorem po_apiLocalWindow (sid : Int) (c : Conn) : PO (localFlowControlWindow sid) c := by
  have h : c.outWin = c.outWin := rfl
  unfold PO localFlowControlWindow; po_api
theorem po_apiRemoteWindow (sid : Int) (c : Conn) : PO (remoteFlowControlWindow sid) c := by
  have h : c.outWin = c.outWin := rfl
  unfold PO remoteFlowControlWindow; po_api
theorem po_apiNextStreamId (c : Conn) : PO getNextAvailableStreamId c := by
  have h : c.outWin = c.outWin := rfl
  unfold PO getNextAvailableStreamId; po_api
theorem po_apiOpenOut (c : Conn) : PO openOutboundStreams c := by
  have h : c.outWin = c.outWin := rfl
  unfold PO openOutboundStreams; po_api
theorem po_apiOpenIn (c : Conn) : PO openInboundStreams c := by
  have h : c.outWin = c.outWin := rfl
  unfold PO openInboundStreams; po_api
theorem po_apiSendHeaders (sid : Int) (hs : List Header) (es : Bool) (pw pd : Option Int) (pe : Option Bool) (c : Conn) :
    PO (sendHeaders sid hs es pw pd pe) c := by
  have h : c.outWin = c.outWin := rfl
  unfold PO sendHeaders sendHeadersTail addPriority openOutboundStreams; po_api
theorem po_apiPushStream (sid p : Int) (hs : List Header) (c : Conn) : PO (pushStream sid p hs) c := by
  have h : c.outWin = c.outWin := rfl
  unfold PO pushStream; po_api
theorem po_apiInitiate (c : Conn) : PO initiateConnection c := by
  have h : c.outWin = c.outWin := rfl
  unfold PO initiateConnection settingsFrameOfLocal; po_api
theorem po_apiUpgrade (hdr : Option Bytes) (c : Conn) :
    PO (initiateUpgradeConnection (fun items => do let _ ← receiveSettingsFrame false items; pure ()) hdr) c := by
  have h : c.outWin = c.outWin := rfl
  unfold PO initiateUpgradeConnection settingsFrameOfLocal
  repeat' (first
    | assumption
    | (apply po_use (po_apiInitiate) _ _ (by assumption))
    | (apply po_connInput _ _ _ (by assumption))
    | (apply po_withStream _ _ _ _ (by assumption))
    | (apply po_use (po_beginNewStream _ _) _ _ (by assumption))
    | (apply po_use (po_settings _ _) _ _ (by assumption))
    | (intro _)
    | wps
    | split)

/-! ### `send_data` -/

theorem cw_sendDataCore (sid : Int) (d : Bytes) (es : Bool) (pad : Option Int) (n : Int) (hn : 0 ≤ n) (c : Conn) (h : CW c) :
    wp (sendDataCore sid d es pad n) (fun _ c' => CW c') (fun _ c' => CW c') c := by
  have k : ∀ c1 : Conn, c1.outWin = c.outWin → CW c1 := fun c1 h1 => by unfold CW; rw [h1]; exact h
  unfold sendDataCore localFlowControlWindow
  wps
  apply po_getStreamById _ _ _ rfl
  · intro c1 h1
    wps
    cases hl : lookupStream c1 sid with
    | none => simp only; wps; exact k c1 h1
    | some st =>
      simp only
      wps
      with_reducible apply ite_intro
      · intro _; exact k c1 h1
      intro hfit
      with_reducible apply ite_intro
      · intro _; exact k c1 h1
      intro _
      apply po_connInput _ _ _ h1
      · intro c2 h2
        wps
        apply po_withStream _ _ _ _ h2
        · intro fs c3 h3
          wps
          apply po_prepare _ _ _ h3
          · intro c4 h4
            wps
            have h5 : c4.outWin - n = c.outWin - n := by rw [h4]
            have hle : n ≤ c.outWin := by
              have : n ≤ min c1.outWin st.outWin := by omega
              rw [h1] at this
              omega
            have hc := h
            unfold CW at hc
            split
            · (try wps); unfold CW; (try simp only); omega
            · (try wps); unfold CW; (try simp only); omega
          · intro e c4 h4; exact k c4 h4
        · intro e c3 h3; exact k c3 h3
      · intro e c2 h2; exact k c2 h2
  · intro e c1 h1; exact k c1 h1

theorem cw_apiSendData (sid : Int) (d : Bytes) (es : Bool) (pad : Option Int) (c : Conn) (h : CW c) :
    wp (sendData sid d es pad) (fun _ c' => CW c') (fun _ c' => CW c') c := by
  unfold sendData
  cases pad with
  | none => exact cw_sendDataCore sid d es none _ (by omega) c h
  | some p =>
    simp only
    wps
    with_reducible apply ite_intro
    · intro _; exact h
    · intro hp
      have : 0 ≤ p := by
        simp only [Bool.or_eq_true, decide_eq_true_eq, not_or, Int.not_lt] at hp
        exact hp.1
      exact cw_sendDataCore sid d es (some p) _ (by omega) c h

end H2
