/-
  C25 — the h2c upgrade hands over settings and stream 1 consistently.
-/
import H2.Proofs.RecvEmits
import H2.Proofs.Bytes

namespace H2.C25
open H2 H2.Gen H2.Conn

/-! ### HTTP2-Settings: urlsafe base64 round trip -/

theorem b64Val_b64Char : ∀ n : Fin 64, b64Val (b64Char n.val) = some n.val := by decide

theorem b64Val_char (n : Nat) (h : n < 64) : b64Val (b64Char n) = some n := b64Val_b64Char ⟨n, h⟩

theorem b64Char_ne_pad : ∀ n : Fin 64, b64Char n.val ≠ 61 := by decide

theorem u8_ofNat_toNat (a : UInt8) : UInt8.ofNat a.toNat = a := by
  cases a; simp [UInt8.ofNat, UInt8.toNat]


theorem b64Char_ne61 (n : Nat) (h : n < 64) : b64Char n ≠ 61 := b64Char_ne_pad ⟨n, h⟩

/-- **urlsafe base64**: decoding what `urlsafe_b64encode` produced gives the bytes back, for every byte string -/
theorem C25_b64_roundtrip : ∀ bs : Bytes, b64Decode (b64Encode bs) = some bs
  | [] => rfl
  | [a] => by
    have ha := a.toNat_lt
    simp only [b64Encode]
    rw [b64Decode.eq_2, b64Val_char _ (by omega), b64Val_char _ (by omega)]
    simp only [bind, Option.bind, pure]
    have : (a.toNat * 65536 / 262144 * 64 + a.toNat * 65536 / 4096 % 64) / 16 = a.toNat := by omega
    rw [this, u8_ofNat_toNat]
  | [a, b] => by
    have ha := a.toNat_lt
    have hb := b.toNat_lt
    simp only [b64Encode]
    rw [b64Decode.eq_3 _ _ _ (b64Char_ne61 _ (by omega)), b64Val_char _ (by omega), b64Val_char _ (by omega),
      b64Val_char _ (by omega)]
    simp only [bind, Option.bind, pure]
    have h1 : (((a.toNat * 65536 + b.toNat * 256) / 262144 * 64 + (a.toNat * 65536 + b.toNat * 256) / 4096 % 64) * 64 +
        (a.toNat * 65536 + b.toNat * 256) / 64 % 64) / 1024 = a.toNat := by omega
    have h2 : (((a.toNat * 65536 + b.toNat * 256) / 262144 * 64 + (a.toNat * 65536 + b.toNat * 256) / 4096 % 64) * 64 +
        (a.toNat * 65536 + b.toNat * 256) / 64 % 64) / 4 % 256 = b.toNat := by omega
    rw [h1, h2, u8_ofNat_toNat, u8_ofNat_toNat]
  | a :: b :: c :: rest => by
    have ha := a.toNat_lt
    have hb := b.toNat_lt
    have hc := c.toNat_lt
    have ih := C25_b64_roundtrip rest
    simp only [b64Encode]
    rw [b64Decode.eq_4 _ _ _ _ _ (fun _ h _ => b64Char_ne61 _ (by omega) h) (fun h _ => b64Char_ne61 _ (by omega) h),
      b64Val_char _ (by omega), b64Val_char _ (by omega), b64Val_char _ (by omega), b64Val_char _ (by omega), ih]
    simp only [bind, Option.bind, pure]
    have h1 : ((((a.toNat * 65536 + b.toNat * 256 + c.toNat) / 262144 * 64 +
        (a.toNat * 65536 + b.toNat * 256 + c.toNat) / 4096 % 64) * 64 +
        (a.toNat * 65536 + b.toNat * 256 + c.toNat) / 64 % 64) * 64 +
        (a.toNat * 65536 + b.toNat * 256 + c.toNat) % 64) = a.toNat * 65536 + b.toNat * 256 + c.toNat := by omega
    rw [h1]
    have g1 : (a.toNat * 65536 + b.toNat * 256 + c.toNat) / 65536 = a.toNat := by omega
    have g2 : (a.toNat * 65536 + b.toNat * 256 + c.toNat) / 256 % 256 = b.toNat := by omega
    have g3 : (a.toNat * 65536 + b.toNat * 256 + c.toNat) % 256 = c.toNat := by omega
    rw [g1, g2, g3, u8_ofNat_toNat, u8_ofNat_toNat, u8_ofNat_toNat]

/-! ### HTTP2-Settings: SETTINGS payload round trip -/

/-- one entry of a SETTINGS payload -/
def entry (kv : Int × Int) : Bytes := be16 (mask8 kv.1) ++ be32 kv.2.toNat

def payload (items : List (Int × Int)) : Bytes := (items.map entry).flatten

def ItemOk (kv : Int × Int) : Prop := 0 ≤ kv.1 ∧ kv.1 < 256 ∧ 0 ≤ kv.2 ∧ kv.2 < 4294967296

theorem entry_length (kv : Int × Int) : (entry kv).length = 6 := rfl

def settingsStep (acc : Bytes) (kv : Int × Int) : Option Bytes := do
  let v ← u32? kv.2
  pure (acc ++ be16 (mask8 kv.1) ++ v)

theorem settingsStep_ok (acc : Bytes) (kv : Int × Int) (h : ItemOk kv) :
    settingsStep acc kv = some (acc ++ entry kv) := by
  unfold settingsStep u32?
  rw [if_pos ⟨h.2.2.1, h.2.2.2⟩]
  simp [entry, List.append_assoc]

theorem foldl_settingsStep (items : List (Int × Int)) (h : ∀ kv ∈ items, ItemOk kv) (acc : Bytes) :
    items.foldlM settingsStep acc = some (acc ++ payload items) := by
  induction items generalizing acc with
  | nil => simp [payload]
  | cons kv rest ih =>
    rw [List.foldlM_cons, settingsStep_ok acc kv (h kv (List.mem_cons_self ..))]
    simp only [Option.bind_eq_bind, Option.bind_some]
    rw [ih (fun x hx => h x (List.mem_cons_of_mem _ hx))]
    simp [payload, List.append_assoc]

theorem body_eq_payload (a : Bool) (items : List (Int × Int)) (h : ∀ kv ∈ items, ItemOk kv) :
    (Frame.settings a items).body? = some (payload items) := by
  have : (Frame.settings a items).body? = items.foldlM settingsStep [] := rfl
  rw [this, foldl_settingsStep items h []]
  simp

theorem go_payload (items : List (Int × Int)) (acc : List (Int × Int)) (fuel : Nat)
    (h : ∀ kv ∈ items, ItemOk kv) (hf : items.length ≤ fuel)
    (hnew : ∀ kv ∈ items, ∀ x ∈ acc, x.1 ≠ kv.1) (hd : (items.map (·.1)).Nodup) :
    parseBody.go fuel (payload items) acc = acc ++ items := by
  induction items generalizing acc fuel with
  | nil =>
    cases fuel <;> simp [parseBody.go, payload]
  | cons kv rest ih =>
    cases fuel with
    | zero => simp at hf
    | succ n =>
      have hkv := h kv (List.mem_cons_self ..)
      obtain ⟨k, v⟩ := kv
      simp only [ItemOk] at hkv
      have hp : payload ((k, v) :: rest) = entry (k, v) ++ payload rest := by simp [payload]
      rw [hp]
      unfold parseBody.go
      have hlen : ¬ ((entry (k, v) ++ payload rest).length < 6) := by simp [entry_length]
      simp only [hlen, if_false]
      have hk : (rd16 ((entry (k, v) ++ payload rest).take 2) : Int) = k := by
        have : (entry (k, v) ++ payload rest).take 2 = be16 (mask8 k) := by simp [entry, be16]
        rw [this, rd16_be16 _ (by unfold mask8; omega)]
        unfold mask8; omega
      have hv : (rd32 (((entry (k, v) ++ payload rest).drop 2).take 4) : Int) = v := by
        have : ((entry (k, v) ++ payload rest).drop 2).take 4 = be32 v.toNat := by simp [entry, be16, be32]
        rw [this, rd32_be32 _ (by omega)]
        omega
      have hdrop : (entry (k, v) ++ payload rest).drop 6 = payload rest := by
        rw [List.drop_append_of_le_length (by simp [entry_length])]; simp [entry_length]
      simp only [hk, hv, hdrop]
      have hnot : (acc.any fun kv => kv.1 == k) = false := by
        rw [Bool.eq_false_iff]
        intro hany
        rw [List.any_eq_true] at hany
        obtain ⟨x, hx, hxk⟩ := hany
        exact hnew (k, v) (List.mem_cons_self ..) x hx (by simpa using hxk)
      simp only [hnot, Bool.false_eq_true, if_false]
      rw [ih (acc ++ [(k, v)]) n (fun x hx => h x (List.mem_cons_of_mem _ hx)) (by simp at hf; omega)]
      · simp
      · intro kv2 hkv2 x hx
        rw [List.mem_append] at hx
        rcases hx with hx | hx
        · exact hnew kv2 (List.mem_cons_of_mem _ hkv2) x hx
        · simp at hx; subst hx
          simp only [List.map_cons, List.nodup_cons, List.mem_map] at hd
          intro heq
          exact hd.1 ⟨kv2, hkv2, heq.symm⟩
      · simp only [List.map_cons, List.nodup_cons] at hd; exact hd.2

/-- **SETTINGS payload**: what `SettingsFrame.serialize_body` writes for distinct identifiers below 256 with 32-bit
    values, `parse_body` reads back unchanged and in order (identifiers ≥ 256 are truncated by hyperframe: D21) -/
theorem C25_settings_roundtrip (items : List (Int × Int)) (h : ∀ kv ∈ items, ItemOk kv)
    (hd : (items.map (·.1)).Nodup) :
    ∃ body, (Frame.settings false items).body? = some body ∧
      parseBody { length := body.length, type := 4, flags := 0, sid := 0 } body = .ok { frame := .settings false items } := by
  refine ⟨payload items, body_eq_payload false items h, ?_⟩
  have hlen : (payload items).length = 6 * items.length := by
    induction items with
    | nil => rfl
    | cons kv rest ih =>
      have : payload (kv :: rest) = entry kv ++ payload rest := by simp [payload]
      rw [this, List.length_append, entry_length, ih (fun x hx => h x (List.mem_cons_of_mem _ hx))
        (by simp only [List.map_cons, List.nodup_cons] at hd; exact hd.2)]
      simp; omega
  unfold parseBody
  simp only [hasBit]
  have h6 : (payload items).length % 6 = 0 := by rw [hlen]; omega
  simp [h6, go_payload items [] (payload items).length h (by rw [hlen]; omega) (by simp) hd]

/-! ### stream 1 after the upgrade -/

def clientStream1 : Shape := (stepShape {} .UPGRADE_CLIENT).2
def serverStream1 : Shape := (stepShape {} .UPGRADE_SERVER).2

/-- stream 1 starts half-closed on both sides: half-closed(local) at the client, which has "sent" the request,
    half-closed(remote) at the server, which has "received" it -/
theorem C25_stream1_states :
    (stepShape {} .UPGRADE_CLIENT).1 = .ok [.RequestSent] ∧ clientStream1.state = .HALF_CLOSED_LOCAL ∧
    clientStream1.client = some true ∧ clientStream1.headersSent = true ∧
    (stepShape {} .UPGRADE_SERVER).1 = .ok [.RequestReceived] ∧ serverStream1.state = .HALF_CLOSED_REMOTE ∧
    serverStream1.client = some false ∧ serverStream1.headersReceived = true := by decide

/-- the server can answer it (headers, data, end of stream), the client receives that response; neither side can
    send a request body: the client's SEND_DATA / SEND_END_STREAM and request DATA arriving at the server are refused -/
theorem C25_stream1_use :
    okStep serverStream1 .SEND_HEADERS = true ∧ okStep (stepShape serverStream1 .SEND_HEADERS).2 .SEND_DATA = true ∧
    okStep (stepShape serverStream1 .SEND_HEADERS).2 .SEND_END_STREAM = true ∧
    okStep clientStream1 .RECV_HEADERS = true ∧ okStep (stepShape clientStream1 .RECV_HEADERS).2 .RECV_DATA = true ∧
    okStep clientStream1 .SEND_DATA = false ∧ okStep clientStream1 .SEND_END_STREAM = false ∧
    okStep clientStream1 .SEND_HEADERS = false ∧ okStep serverStream1 .RECV_DATA = false ∧
    okStep serverStream1 .RECV_HEADERS = false := by decide

/-- the upgrade registers stream 1 with the right watermark, so that both sides go on with ids 3 and 2 -/
theorem C25_next_ids :
    let c := (step (Conn.init { client := true }) (.initiateUpgrade none)).1
    let s := (step (Conn.init { client := false }) (.initiateUpgrade none)).1
    (c.streams.map fun e => (e.1, e.2.sm.sh.state)) = [(1, .HALF_CLOSED_LOCAL)] ∧ c.highestOut = 1 ∧ c.highestIn = 0 ∧
    (s.streams.map fun e => (e.1, e.2.sm.sh.state)) = [(1, .HALF_CLOSED_REMOTE)] ∧ s.highestIn = 1 ∧ s.highestOut = 0 ∧
    (getNextAvailableStreamId c).1.toOption = some 3 ∧ (getNextAvailableStreamId s).1.toOption = some 2 := by
  decide +kernel

/-- the value the client puts into HTTP2-Settings is the base64 of the SETTINGS payload of its local settings, so by
    the two round trips above the server's `initiate_upgrade_connection(value)` hands exactly those settings to
    `_receive_settings_frame` -/
theorem C25_header_is_local_settings (c : Conn) (items : List (Int × Int)) (hi : c.localSettings.items = items)
    (hok : ∀ kv ∈ items, ItemOk kv) (hd : (items.map (·.1)).Nodup) :
    ∃ body, (Frame.settings false items).body? = some body ∧
      b64Decode (b64Encode body) = some body ∧
      parseBody { length := body.length, type := 4, flags := 0, sid := 0 } body = .ok { frame := .settings false items } := by
  obtain ⟨body, h1, h2⟩ := C25_settings_roundtrip items hok hd
  exact ⟨body, h1, C25_b64_roundtrip body, h2⟩

end H2.C25
