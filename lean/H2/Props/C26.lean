/-
  C26 — each received PING is answered exactly once with the same payload.
-/
import H2.Proofs.Bytes
import H2.Proofs.Send

namespace H2.C26
open H2 H2.Gen H2.Conn

/-- **received PING without ACK**: exactly one PingReceived carrying the payload, exactly one PING ACK frame with the
    identical payload to be appended, nothing else changes -/
theorem C26_recv_ping (c : Conn) (payload : Bytes) (hopen : c.cstate ≠ .CLOSED) :
    wp (receivePingFrame false payload)
      (fun r c' => r = ([Frame.ping true payload], [Event.PingReceived payload]) ∧ c' = c)
      (fun _ _ => False) c := by
  have htab : connTable c.cstate .RECV_PING = some c.cstate := by
    cases h : c.cstate <;> simp_all [connTable]
  simp only [receivePingFrame]
  wps
  rw [wp_connInput_ok _ _ _ htab]
  have hc : ({ c with cstate := c.cstate } : Conn) = c := by cases c; rfl
  simp [hc]

/-- **received PING ACK**: reported as PingAckReceived, never answered -/
theorem C26_recv_ack (c : Conn) (payload : Bytes) (hopen : c.cstate ≠ .CLOSED) :
    wp (receivePingFrame true payload)
      (fun r c' => r = ([], [Event.PingAckReceived payload]) ∧ c' = c)
      (fun _ _ => False) c := by
  have htab : connTable c.cstate .RECV_PING = some c.cstate := by
    cases h : c.cstate <;> simp_all [connTable]
  simp only [receivePingFrame]
  wps
  rw [wp_connInput_ok _ _ _ htab]
  have hc : ({ c with cstate := c.cstate } : Conn) = c := by cases c; rfl
  simp [hc]

/-- the ACK frame on the wire carries the same 8 bytes: serialisation and parsing of PING are inverse -/
theorem C26_wire (ack : Bool) (payload : Bytes) (h8 : payload.length = 8) :
    (Frame.ping ack payload).body? = some payload ∧
    parseBody { length := 8, type := 6, flags := (if ack then 1 else 0), sid := 0 } payload
      = .ok { frame := .ping ack payload } := by
  constructor
  · simp [Frame.body?, h8, zeros]
  · simp only [parseBody, h8]
    cases ack <;> simp [hasBit]

/-- **ping()**: accepts exactly 8-byte payloads; emits exactly one PING (no ACK) with that payload -/
theorem C26_send (c : Conn) (d : Bytes) (hopen : c.cstate ≠ .CLOSED) (hmax : 8 ≤ c.maxOutFrame) :
    (d.length ≠ 8 → wp (ping d) (fun _ _ => False) (fun e c' => c' = c) c) ∧
    (d.length = 8 → ∃ b, (Frame.ping false d).serialize? = some b ∧
        wp (ping d) (fun _ c' => c' = { c with out := c.out ++ b, sent := c.sent ++ [Frame.ping false d] }) (fun _ _ => False) c) := by
  have htab : connTable c.cstate .SEND_PING = some c.cstate := by
    cases h : c.cstate <;> simp_all [connTable]
  have hc : ({ c with cstate := c.cstate } : Conn) = c := by cases c; rfl
  constructor
  · intro h
    simp only [ping]
    wps
    simp [h]
  · intro h
    have hbody : (Frame.ping false d).body? = some d := by simp [Frame.body?, h, zeros]
    have hser : ∃ b, (Frame.ping false d).serialize? = some b := by
      simp [Frame.serialize?, hbody, u8?, Frame.typeCode, Frame.flagByte]
    obtain ⟨b, hb⟩ := hser
    refine ⟨b, hb, ?_⟩
    simp only [ping]
    wps
    simp only [h, bne_self_eq_false, Bool.false_eq_true, if_false]
    rw [wp_connInput_ok _ _ _ htab, hc]
    rw [wp_prepare_eq [Frame.ping false d] c [b] (by simp) (by simp [hb])
      (by simp only [List.all_cons, List.all_nil, Bool.and_true, Frame.bodyLen, hbody, Option.getD, h, decide_eq_true_eq]; omega)]
    simp

/-- several PINGs in one `receive_data` call: events and ACK frames keep arrival order, because each frame's reply
    is appended (never inserted) to the output -/
theorem C26_order (c : Conn) (f1 f2 : Frame) (b1 b2 : Bytes) (h1 : f1.serialize? = some b1) (h2 : f2.serialize? = some b2)
    (hl1 : (f1.bodyLen : Int) ≤ c.maxOutFrame) (hl2 : (f2.bodyLen : Int) ≤ c.maxOutFrame) :
    wp (do prepareForSending [f1]; prepareForSending [f2]) (fun _ c' => c'.out = c.out ++ b1 ++ b2) (fun _ _ => False) c := by
  wps
  rw [wp_prepare_eq [f1] c [b1] (by simp) (by simp [h1]) (by simp [hl1])]
  rw [wp_prepare_eq [f2] _ [b2] (by simp) (by simp [h2]) (by simp [hl2])]
  simp

/-- non-vacuity -/
example : (Frame.ping true [1,2,3,4,5,6,7,8]).serialize? = some [0,0,8,6,1,0,0,0,0,1,2,3,4,5,6,7,8] := by decide

end H2.C26
