/-
  Public calls preserve the connection invariant `WF` (and leave the frame buffer alone): with `receiveData_ok` this makes
  `WF` an invariant of every history of the covered calls and `receive_data`.
-/
import H2.Proofs.ApiOk
import H2.Proofs.HeaderSend
namespace H2
open H2.Gen H2.Conn

/-! ### public calls preserve the connection invariant -/

/-- the invariant of C17, with the frame buffer it also speaks about -/
def KW (fb0 : FrameBuffer) (c : Conn) : Prop := WF c ∧ c.fb = fb0

section
variable {α : Type} {Q : α → Conn → Prop} {E : Exc → Conn → Prop}

theorem kw_connInput {Q : Unit → Conn → Prop} (i : ConnectionInputs) (c : Conn) (fb0) (h : KW fb0 c)
    (hq : ∀ c', KW fb0 c' → Q () c') (he : ∀ e c', KW fb0 c' → E e c') : wp (connInput i) Q E c := by
  unfold wp connInput
  obtain ⟨hwf, hfb⟩ := h
  cases hct : connTable c.cstate i with
  | none => exact he _ _ ⟨⟨⟨hwf.1.ls, hwf.1.rs, hwf.1.mof, hwf.1.dec, hwf.1.ls32⟩, fun hc => absurd rfl hc⟩, hfb⟩
  | some t =>
    simp only
    apply hq
    refine ⟨⟨⟨hwf.1.ls, hwf.1.rs, hwf.1.mof, hwf.1.dec, hwf.1.ls32⟩, ?_⟩, hfb⟩
    intro ht
    by_cases hc : c.cstate = .CLOSED
    · rw [hc] at hct; exact absurd (conn_closed_absorbing _ _ hct) ht
    · exact hwf.2 hc

/-- a stream method that never takes a stream back to IDLE -/
def KeepsNotIdle (m : M Stream α) : Prop :=
  ∀ st, st.sm.state ≠ .IDLE → wp m (fun _ st' => st'.sm.state ≠ .IDLE) (fun _ st' => st'.sm.state ≠ .IDLE) st

theorem kw_withStream (sid : Int) (m : M Stream α) (c : Conn) (fb0) (h : KW fb0 c) (hm : KeepsNotIdle m)
    (hq : ∀ a c', KW fb0 c' → Q a c') (he : ∀ e c', KW fb0 c' → E e c') : wp (withStream sid m) Q E c := by
  rw [wp_withStream]
  obtain ⟨hwf, hfb⟩ := h
  cases hl : c.streams.lookup sid with
  | none => exact he _ _ ⟨hwf, hfb⟩
  | some st =>
    simp only
    by_cases hc : c.cstate = .CLOSED
    · apply wp_havoc
      · intro a st'; exact hq a _ ⟨⟨wfb_setStream hwf.1, fun hn => absurd hc hn⟩, hfb⟩
      · intro e st'; exact he e _ ⟨⟨wfb_setStream hwf.1, fun hn => absurd hc hn⟩, hfb⟩
    · have hni := hwf.2 hc
      have hst := notIdle_lookup hni hl
      refine wp_mono (hm st hst) ?_ ?_
      · intro a st' hs'
        exact hq a _ ⟨⟨wfb_setStream hwf.1, fun _ => notIdle_setStream hni hs'⟩, hfb⟩
      · intro e st' hs'
        exact he e _ ⟨⟨wfb_setStream hwf.1, fun _ => notIdle_setStream hni hs'⟩, hfb⟩

theorem kw_getStreamById {Q : Unit → Conn → Prop} (sid : Int) (c : Conn) (fb0) (h : KW fb0 c)
    (hq : ∀ c', KW fb0 c' → Q () c') (he : ∀ e c', KW fb0 c' → E e c') : wp (getStreamById sid) Q E c := by
  rw [wp_getStreamById_eq]
  repeat' split
  all_goals first | exact hq c h | exact he _ c h

theorem kw_onConnWM {Q : Option Int → Conn → Prop} (f : WindowManager → WRes) (c : Conn) (fb0) (h : KW fb0 c)
    (hq : ∀ a c', KW fb0 c' → Q a c') (he : ∀ e c', KW fb0 c' → E e c') : wp (onConnWM f) Q E c := by
  rw [wp_onConnWM]
  obtain ⟨hwf, hfb⟩ := h
  have k : ∀ w, KW fb0 { c with inWM := w } := fun w => ⟨⟨⟨hwf.1.ls, hwf.1.rs, hwf.1.mof, hwf.1.dec, hwf.1.ls32⟩, hwf.2⟩, hfb⟩
  cases f c.inWM with
  | mk r w => cases r <;> first | exact hq _ _ (k w) | exact he _ _ (k w)

theorem kw_openStreams {Q : Int → Conn → Prop} (r : Int) (c : Conn) (fb0) (h : KW fb0 c)
    (hq : ∀ a c', KW fb0 c' → Q a c') : wp (openStreams r) Q E c := by
  simp only [wp, openStreams]
  apply hq
  obtain ⟨hwf, hfb⟩ := h
  refine ⟨⟨⟨hwf.1.ls, hwf.1.rs, hwf.1.mof, hwf.1.dec, hwf.1.ls32⟩, ?_⟩, hfb⟩
  intro hc e he
  exact hwf.2 hc e (List.mem_filter.mp he).1

theorem kw_prepare {Q : Unit → Conn → Prop} (fs : List Frame) (c : Conn) (fb0) (h : KW fb0 c)
    (hq : ∀ c', KW fb0 c' → Q () c') (he : ∀ e c', KW fb0 c' → E e c') : wp (prepareForSending fs) Q E c := by
  obtain ⟨hwf, hfb⟩ := h
  have k : ∀ o s, KW fb0 { c with out := o, sent := s } :=
    fun o s => ⟨⟨⟨hwf.1.ls, hwf.1.rs, hwf.1.mof, hwf.1.dec, hwf.1.ls32⟩, hwf.2⟩, hfb⟩
  unfold prepareForSending
  wps
  split
  · exact hq c ⟨hwf, hfb⟩
  · cases fs.mapM Frame.serialize? with
    | none => exact he _ c ⟨hwf, hfb⟩
    | some bs =>
      simp only
      wps
      split
      · exact hq _ (k _ _)
      · exact he _ _ (k _ _)

end

attribute [local irreducible] prepareForSending

/-- `process_input` never takes a stream back to IDLE (all shapes of the generated table) -/
theorem keeps_processInput (i : StreamInputs) : KeepsNotIdle (processInput i) := by
  intro st hst
  rw [wp_processInput_eq]
  have hn := tbl_not_idle st.sm.sh i
  have hst' : (st.sm.sh.state == StreamState.IDLE) = false := by
    have : st.sm.sh.state ≠ .IDLE := hst
    simpa using this
  rw [hst', Bool.false_or] at hn
  cases hs : stepShape st.sm.sh i with
  | mk r sh =>
    rw [hs] at hn
    have : (st.withShape sh).sm.state ≠ .IDLE := by
      show sh.state ≠ .IDLE
      simpa using hn
    cases r <;> exact this

/-- generic step: bind of a state-keeping method with a continuation that keeps it -/
theorem keeps_bind {α β : Type} (m : M Stream α) (k : α → M Stream β) (hm : KeepsNotIdle m) (hk : ∀ a, KeepsNotIdle (k a)) :
    KeepsNotIdle (m >>= k) := by
  intro st hst
  rw [wp_bind]
  refine wp_mono (hm st hst) ?_ ?_
  · intro a st' h'; exact hk a st' h'
  · intro e st' h'; exact h'

theorem keeps_pure {α : Type} (a : α) : KeepsNotIdle (pure a : M Stream α) := fun _ h => h
theorem keeps_raise {α : Type} (e : Exc) : KeepsNotIdle (raise e : M Stream α) := fun _ h => h
theorem keeps_getS : KeepsNotIdle (getS : M Stream Stream) := fun _ h => h
theorem keeps_ite {α : Type} (c : Prop) [Decidable c] (a b : M Stream α) (ha : KeepsNotIdle a) (hb : KeepsNotIdle b) :
    KeepsNotIdle (if c then a else b) := by split <;> assumption
theorem keeps_onWM (f : WindowManager → WRes) : KeepsNotIdle (onWM f) := by
  intro st hst
  unfold wp onWM
  cases f st.inWM with
  | mk r w => cases r <;> exact hst
theorem keeps_modify (f : Stream → Stream) (hf : ∀ s, (f s).sm = s.sm) : KeepsNotIdle (modifyS f) := by
  intro st hst
  show (f st).sm.state ≠ .IDLE
  rw [hf]; exact hst

macro "keeps_auto" : tactic => `(tactic|
  repeat' (first
    | (with_reducible exact keeps_processInput _)
    | (with_reducible exact keeps_pure _)
    | (with_reducible exact keeps_raise _)
    | (with_reducible exact keeps_getS)
    | (with_reducible exact keeps_onWM _)
    | (with_reducible apply keeps_modify; intro _; rfl)
    | (with_reducible apply keeps_bind)
    | (with_reducible apply keeps_ite)
    | contradiction
    | (intro _)
    | split))

theorem keeps_sendData (d : Bytes) (es : Bool) (pad : Option Int) : KeepsNotIdle (Stream.sendData d es pad) := by
  unfold Stream.sendData; keeps_auto
theorem keeps_endStream : KeepsNotIdle Stream.endStream := by unfold Stream.endStream; keeps_auto
theorem keeps_altSvc (f : Bytes) : KeepsNotIdle (Stream.advertiseAltSvc f) := by unfold Stream.advertiseAltSvc; keeps_auto
theorem keeps_incWindow (n : Int) : KeepsNotIdle (Stream.increaseFlowControlWindow n) := by
  unfold Stream.increaseFlowControlWindow; keeps_auto
theorem keeps_resetStream (code : Int) : KeepsNotIdle (Stream.resetStream code) := by unfold Stream.resetStream; keeps_auto
theorem keeps_ackData (n : Int) : KeepsNotIdle (Stream.acknowledgeReceivedData n) := by
  unfold Stream.acknowledgeReceivedData; keeps_auto

theorem ite_intro {c : Prop} [Decidable c] {A B : Prop} (ha : c → A) (hb : ¬ c → B) : (if c then A else B) := by
  by_cases h : c
  · rw [if_pos h]; exact ha h
  · rw [if_neg h]; exact hb h

/-- close goals `KW fb0 _` / continue through a public call that only uses the primitives above -/
macro "kw_auto" : tactic => `(tactic|
  repeat' (first
    | (with_reducible assumption)
    | (with_reducible apply kw_connInput _ _ _ (by with_reducible assumption))
    | (with_reducible (apply kw_withStream _ _ _ _ (by with_reducible assumption) (by first | exact keeps_sendData _ _ _ | exact keeps_endStream | exact keeps_altSvc _ | exact keeps_incWindow _ | exact keeps_resetStream _ | exact keeps_ackData _)))
    | (with_reducible apply kw_getStreamById _ _ _ (by with_reducible assumption))
    | (with_reducible apply kw_openStreams _ _ _ (by with_reducible assumption))
    | (with_reducible apply kw_onConnWM _ _ _ (by with_reducible assumption))
    | (with_reducible apply kw_prepare _ _ _ (by with_reducible assumption))
    | (with_reducible apply ite_intro)
    | wps
    | (intro _)
    | split))

/-- the same without `split` (which runs out of recursion depth on goals mentioning 32-bit literals) -/
macro "kw_auto0" : tactic => `(tactic|
  repeat' (first
    | (with_reducible assumption)
    | (with_reducible apply kw_connInput _ _ _ (by with_reducible assumption))
    | (with_reducible (apply kw_withStream _ _ _ _ (by with_reducible assumption) (by first | exact keeps_sendData _ _ _ | exact keeps_endStream | exact keeps_altSvc _ | exact keeps_incWindow _ | exact keeps_resetStream _ | exact keeps_ackData _)))
    | (with_reducible apply kw_getStreamById _ _ _ (by with_reducible assumption))
    | (with_reducible apply kw_openStreams _ _ _ (by with_reducible assumption))
    | (with_reducible apply kw_onConnWM _ _ _ (by with_reducible assumption))
    | (with_reducible apply kw_prepare _ _ _ (by with_reducible assumption))
    | (with_reducible apply ite_intro)
    | wps
    | (intro _)))


/-- a public call keeps the invariant (and the frame buffer), whether it returns or raises -/
abbrev ApiKeeps {α : Type} (m : CM α) (c : Conn) : Prop :=
  ∀ fb0, KW fb0 c → wp m (fun _ c' => KW fb0 c') (fun _ c' => KW fb0 c') c

theorem keeps_ping (d : Bytes) (c : Conn) : ApiKeeps (ping d) c := by
  intro fb0 h; unfold ping; kw_auto
theorem keeps_apiResetStream (sid code : Int) (c : Conn) : ApiKeeps (resetStream sid code) c := by
  intro fb0 h; unfold resetStream; kw_auto
theorem keeps_apiEndStream (sid : Int) (c : Conn) : ApiKeeps (endStream sid) c := by
  intro fb0 h; unfold endStream; kw_auto
set_option maxRecDepth 100000 in
theorem keeps_apiIncrementWindow (n : Int) (sid : Option Int) (c : Conn) : ApiKeeps (incrementFlowControlWindow n sid) c := by
  intro fb0 h; unfold incrementFlowControlWindow; kw_auto
set_option maxRecDepth 4000 in
theorem keeps_apiCloseConnection (code : Int) (extra : Option Bytes) (last : Option Int) (c : Conn) :
    ApiKeeps (closeConnection code extra last) c := by
  intro fb0 h; unfold closeConnection
  wps
  with_reducible apply ite_intro
  · intro _; exact h
  intro _
  with_reducible apply ite_intro
  · intro _; exact h
  intro _
  with_reducible apply ite_intro
  · intro _; exact h
  intro _
  with_reducible apply kw_connInput _ _ _ h
  · intro c1 h1
    wps
    with_reducible apply kw_prepare _ _ _ h1
    · intro _ h2; exact h2
    · intro _ _ h2; exact h2
  · intro _ _ h2; exact h2

set_option maxRecDepth 50000 in
theorem keeps_apiAltsvc (f : Bytes) (o : Option Bytes) (sid : Option Int) (c : Conn) :
    ApiKeeps (advertiseAlternativeService f o sid) c := by
  intro fb0 h; unfold advertiseAlternativeService
  cases o with
  | none =>
    cases sid with
    | none => wps; simp only [Option.isSome_none, Bool.and_self, Bool.false_eq_true, if_false, Option.isNone_none, if_true]; exact h
    | some s =>
      wps
      simp only [Option.isSome_none, Bool.false_and, Bool.false_eq_true, if_false, Option.isNone_none, Option.isNone_some,
        Bool.and_false]
      kw_auto0
  | some ov =>
    wps
    cases sid with
    | some s => simp only [Option.isSome_some, Bool.and_self, if_true]; exact h
    | none =>
      simp only [Option.isSome_some, Option.isSome_none, Bool.and_false, Bool.false_eq_true, if_false, Option.isNone_some,
        Bool.false_and]
      with_reducible apply ite_intro
      · intro _; exact h
      intro hx; clear hx
      with_reducible apply ite_intro
      · intro _; exact h
      intro hx; clear hx
      with_reducible apply ite_intro
      · intro _; exact h
      intro hx; clear hx
      with_reducible apply kw_connInput _ _ _ h
      · intro c1 h1
        wps
        generalize [Frame.altsvc 0 ov f] = fs
        with_reducible apply kw_prepare _ _ _ h1
        · intro _ h2; exact h2
        · intro _ _ h2; exact h2
      · intro _ _ h2; exact h2

theorem keeps_apiPrioritize (sid : Int) (w d : Option Int) (e : Option Bool) (c : Conn) : ApiKeeps (prioritize sid w d e) c := by
  intro fb0 h; unfold prioritize; kw_auto

theorem keeps_apiSendData (sid : Int) (d : Bytes) (es : Bool) (pad : Option Int) (c : Conn) :
    ApiKeeps (sendData sid d es pad) c := by
  intro fb0 h
  have core : ∀ fs, wp (sendDataCore sid d es pad fs) (fun _ c' => KW fb0 c') (fun _ c' => KW fb0 c') c := by
    intro fs
    unfold sendDataCore localFlowControlWindow
    wps
    with_reducible apply kw_getStreamById _ _ _ h
    · intro c1 h1
      wps
      cases lookupStream c1 sid with
      | none => exact h1
      | some st =>
        simp only
        wps
        with_reducible apply ite_intro
        · intro _; exact h1
        intro _
        with_reducible apply ite_intro
        · intro _; exact h1
        intro _
        with_reducible apply kw_connInput _ _ _ h1
        · intro c2 h2
          wps
          with_reducible apply kw_withStream _ _ _ _ h2 (keeps_sendData d es pad)
          · intro fr c3 h3
            wps
            with_reducible apply kw_prepare _ _ _ h3
            · intro c4 h4
              wps
              have h5 : KW fb0 { c4 with outWin := c4.outWin - fs } :=
                ⟨⟨⟨h4.1.1.ls, h4.1.1.rs, h4.1.1.mof, h4.1.1.dec, h4.1.1.ls32⟩, h4.1.2⟩, h4.2⟩
              with_reducible apply ite_intro
              · intro _; exact h5
              · intro _; exact h5
            · intro _ _ h4; exact h4
          · intro _ _ h3; exact h3
        · intro _ _ h2; exact h2
    · intro _ _ h1; exact h1
  unfold sendData
  cases pad with
  | none => exact core _
  | some p =>
    simp only
    wps
    with_reducible apply ite_intro
    · intro _; exact h
    · intro _; exact core _

theorem keeps_apiAckData (size sid : Int) (c : Conn) : ApiKeeps (acknowledgeReceivedData size sid) c := by
  intro fb0 h
  have credit : ∀ present c1, KW fb0 c1 → wp (ackCredit present size sid) (fun _ c' => KW fb0 c') (fun _ c' => KW fb0 c') c1 := by
    intro present c1 h1
    unfold ackCredit
    wps
    with_reducible apply kw_onConnWM _ _ _ h1
    · intro incr c2 h2
      wps
      cases present with
      | false =>
        simp only [Bool.false_eq_true, if_false]
        try wps
        with_reducible apply kw_prepare _ _ _ h2
        · intro _ h3; exact h3
        · intro _ _ h3; exact h3
      | true =>
        simp only [if_true]
        cases lookupStream c2 sid with
        | none =>
          simp only
          wps
          with_reducible apply kw_prepare _ _ _ h2
          · intro _ h3; exact h3
          · intro _ _ h3; exact h3
        | some st =>
          simp only
          wps
          with_reducible apply ite_intro
          · intro _
            with_reducible apply kw_withStream _ _ _ _ h2 (keeps_ackData size)
            · intro more c3 h3
              with_reducible apply kw_prepare _ _ _ h3
              · intro _ h4; exact h4
              · intro _ _ h4; exact h4
            · intro _ _ h3; exact h3
          · intro _
            try wps
            with_reducible apply kw_prepare _ _ _ h2
            · intro _ h3; exact h3
            · intro _ _ h3; exact h3
    · intro _ _ h2; exact h2
  unfold acknowledgeReceivedData
  wps
  with_reducible apply ite_intro
  · intro _; exact h
  intro _
  with_reducible apply ite_intro
  · intro _; exact h
  intro _
  have fin : ∀ present, (if (c.cstate == ConnectionState.CLOSED) = true then KW fb0 c
      else wp (ackCredit present size sid) (fun _ c' => KW fb0 c') (fun _ c' => KW fb0 c') c) := by
    intro present
    with_reducible apply ite_intro
    · intro _; exact h
    · intro _; exact credit present c h
  rw [wp_getStreamById_eq]
  with_reducible apply ite_intro
  · intro _; wps; exact fin true
  intro _
  have hns : ∀ s : Int, (Exc.isInstance (.h2 .NoSuchStreamError (ExcClass.NoSuchStreamError.classCode.map Int.ofNat) (some s) [])
      .StreamClosedError) = false := by
    intro s
    show ExcClass.isSub .NoSuchStreamError .StreamClosedError = false
    decide
  have hsc : ∀ s : Int, (Exc.isInstance (mkStreamClosed s) .StreamClosedError) = true := by
    intro s
    show ExcClass.isSub .StreamClosedError .StreamClosedError = true
    decide
  with_reducible apply ite_intro
  · intro _
    simp only [hns, Bool.false_eq_true, if_false]
    exact h
  · intro _
    simp only [hsc, if_true]
    try wps
    exact fin false

theorem keeps_apiUpdateSettings (items : List (Int × Int)) (c : Conn) : ApiKeeps (updateSettings items) c := by
  intro fb0 h
  unfold updateSettings
  wps
  cases hvl : validateSettingsList items with
  | error e => exact h
  | ok u =>
    simp only
    try wps
    with_reducible apply ite_intro
    · intro _; exact h
    intro _
    with_reducible apply kw_connInput _ _ _ h
    · intro c1 h1
      wps
      have hu := update_spec c1.localSettings items h1.1.1.ls
      have hu32 := ls32_update c1.localSettings items h1.1.1.ls32
        (fun kv hkv => by have := validateSettingsList_ok items hvl kv hkv; omega)
      have k : KW fb0 { c1 with localSettings := (Settings.update c1.localSettings items).2 } :=
        ⟨⟨⟨hu.1, h1.1.1.rs, h1.1.1.mof, h1.1.1.dec, hu32⟩, h1.1.2⟩, h1.2⟩
      cases hU : Settings.update c1.localSettings items with
      | mk r s' =>
        rw [hU] at k
        cases r with
        | error e => simp only; wps; exact k
        | ok v =>
          simp only
          wps
          with_reducible apply kw_prepare _ _ _ k
          · intro _ h3; exact h3
          · intro _ _ h3; exact h3
    · intro _ _ h2; exact h2

theorem keeps_apiDataToSend (n : Option Int) (c : Conn) : ApiKeeps (dataToSend n) c := by
  intro fb0 h
  have k : ∀ o, KW fb0 { c with out := o } := fun o => ⟨⟨⟨h.1.1.ls, h.1.1.rs, h.1.1.mof, h.1.1.dec, h.1.1.ls32⟩, h.1.2⟩, h.2⟩
  unfold dataToSend
  wps
  cases n <;> (wps; exact k _)

theorem keeps_apiClearOut (c : Conn) : ApiKeeps clearOutboundDataBuffer c := by
  intro fb0 h
  unfold clearOutboundDataBuffer
  wps
  exact ⟨⟨⟨h.1.1.ls, h.1.1.rs, h.1.1.mof, h.1.1.dec, h.1.1.ls32⟩, h.1.2⟩, h.2⟩

theorem keeps_apiLocalWindow (sid : Int) (c : Conn) : ApiKeeps (localFlowControlWindow sid) c := by
  intro fb0 h
  unfold localFlowControlWindow
  wps
  with_reducible apply kw_getStreamById _ _ _ h
  · intro c1 h1; wps; cases lookupStream c1 sid <;> exact h1
  · intro _ _ h1; exact h1

theorem keeps_apiRemoteWindow (sid : Int) (c : Conn) : ApiKeeps (remoteFlowControlWindow sid) c := by
  intro fb0 h
  unfold remoteFlowControlWindow
  wps
  with_reducible apply kw_getStreamById _ _ _ h
  · intro c1 h1; wps; cases lookupStream c1 sid <;> exact h1
  · intro _ _ h1; exact h1

theorem keeps_apiNextStreamId (c : Conn) : ApiKeeps getNextAvailableStreamId c := by
  intro fb0 h
  unfold getNextAvailableStreamId
  wps
  with_reducible apply ite_intro <;> (intro _; exact h)

theorem keeps_apiOpenOut (c : Conn) : ApiKeeps openOutboundStreams c := by
  intro fb0 h
  unfold openOutboundStreams
  wps
  exact kw_openStreams _ _ _ h (fun _ _ h1 => h1)

theorem keeps_apiOpenIn (c : Conn) : ApiKeeps openInboundStreams c := by
  intro fb0 h
  unfold openInboundStreams
  wps
  exact kw_openStreams _ _ _ h (fun _ _ h1 => h1)

end H2
