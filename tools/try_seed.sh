#!/bin/sh
# try_seed.sh <seed-name> <pid> [pid...] : apply seeded/<seed>/patch.diff to /repo, run the checks, undo.
S=$1; shift
git -C /repo apply /verif/seeded/$S/patch.diff || exit 2
for p in "$@"; do
  (cd /verif && timeout 1500 ./check $p --tier quick 2>&1 | grep -E "VIOLATION|KNOWN|-> " | sed "s/^/[$S] /")
done
git -C /repo checkout -- .
# restore generated files to the unchanged tree's
(cd /verif && /venv/bin/python tools/gen_tables.py lean/H2/Gen/Tables.lean work/gen_summary.json && /venv/bin/python tools/py2lean.py lean/H2/Gen/Windows.lean >/dev/null)
