import H2.Proofs.SendHeaders
/-! `H2Connection.push_stream` at connection level: what it writes, which exceptions it raises, what it leaves alone,
    and that the stream object it prepares for the promise never stays behind IDLE. -/
namespace H2
open H2.Gen H2.Conn

/-! ### `H2Stream.push_stream_in_band` in full -/

/-- SEND_PUSH_PROMISE on a stream that has left IDLE, when accepted, reports an event (all shapes) -/
def pushSendEvs (sh : Shape) : Bool := sh.state == .IDLE || sendEvs sh .SEND_PUSH_PROMISE
theorem tbl_pushSend_evs : ∀ s, pushSendEvs s = true := forall_shape (by decide +kernel)

/-- the PUSH_PROMISE (+ CONTINUATION) frames of one header block, as `push_stream_in_band` returns them -/
def PushFrames (sid related maxOut : Int) (frames : List Frame) : Prop :=
  ∃ blocks : List Bytes, blocks ≠ [] ∧
    frames = mkHeaderFrames (fun b eh => Frame.pushPromise sid related b eh none) sid blocks ∧
    (∀ b ∈ blocks.head?, (b.length : Int) + 4 ≤ maxOut) ∧ (∀ b ∈ blocks.tail, (b.length : Int) ≤ maxOut)

/-- with a positive frame size the only thing `_build_headers_frames` raises is the validator's ProtocolError -/
theorem buildHeaderBlocks_proto (cfg : Config) (headers : List Header) (fl : HdrFlags) (ov : Int) (s : Stream × Hp)
    (hm : 0 < s.1.maxOutFrame) :
    wp (buildHeaderBlocks cfg headers fl ov) (fun _ _ => True) (fun e _ => e = protoErr) s := by
  unfold buildHeaderBlocks
  wps
  have rest : ∀ hs : List Header, wp (do
        let encoded ← onHp (Hp.encode hs)
        let s ← getS
        if s.1.maxOutFrame ≤ 0 then raise (.py .ValueError) else
        let first := (s.1.maxOutFrame - ov).toNat
        pure (encoded.take first :: chunks s.1.maxOutFrame.toNat (encoded.length + 1) (encoded.drop first)))
      (fun _ _ => True) (fun e _ => e = protoErr) s := by
    intro hs
    unfold onHp
    wps
    unfold wp
    rw [Hp.encode_eq]
    simp only
    split
    · rename_i h; exact absurd h (by show ¬ (s.1.maxOutFrame ≤ 0); omega)
    · trivial
  by_cases hv : cfg.valOut = true
  · simp only [hv, if_true]
    try wps
    cases hval : validateOutbound (if cfg.normOut = true then normalizeOutbound headers else headers) fl with
    | error e => simp only; rw [validateOutbound_err _ _ _ hval]
    | ok out =>
      simp only
      have h := rest out
      simp only [wp_bind] at h
      exact h
  · simp only [hv, Bool.false_eq_true, if_false]
    try wps
    have h := rest (if cfg.normOut = true then normalizeOutbound headers else headers)
    simp only [wp_bind] at h
    exact h

theorem stream_pushInBand_full (cfg : Config) (related : Int) (headers : List Header) (s : Stream × Hp)
    (hm : 5 < s.1.maxOutFrame) (hsid : s.1.sm.sid ≠ 0) (hni : s.1.sm.state ≠ .IDLE) :
    wp (Stream.pushStreamInBand cfg related headers)
      (fun frames s' => Encoded1 cfg headers s frames s' ∧ PushFrames s.1.sm.sid related s.1.maxOutFrame frames ∧
          s'.1.ident = s.1.ident ∧ s'.1.sm.state ≠ .IDLE)
      (fun e s' => s'.2 = s.2 ∧ e.isInstance .ProtocolError = true ∧ s'.1.ident = s.1.ident ∧ s'.1.sm.state ≠ .IDLE) s := by
  unfold Stream.pushStreamInBand
  wps
  unfold onStream
  wps
  rw [wp_processInput_eq]
  have hleave := tbl_not_idle s.1.sm.sh .SEND_PUSH_PROMISE
  have hevs := tbl_pushSend_evs s.1.sm.sh
  have hni' : (s.1.sm.sh.state == StreamState.IDLE) = false := by
    have h : s.1.sm.sh.state ≠ .IDLE := hni
    simpa using h
  unfold pushSendEvs at hevs
  rw [hni', Bool.false_or] at hleave hevs
  cases hstep : stepShape s.1.sm.sh .SEND_PUSH_PROMISE with
  | mk r sh =>
    rw [hstep] at hleave
    have hsh : sh.state ≠ .IDLE := by simpa using hleave
    cases r with
    | proto => exact ⟨trivial, rfl, rfl, hsh⟩
    | streamClosed w => exact ⟨trivial, rfl, rfl, hsh⟩
    | ok events =>
      simp only
      try wps
      with_reducible apply ite_intro
      · intro h0
        exfalso
        have h0' : ((s.1.withShape sh).sid == 0) = true := h0
        have : s.1.sm.sid = 0 := by simpa [Stream.sid, Stream.withShape] using h0'
        exact hsid this
      intro _
      cases events with
      | nil =>
        unfold sendEvs at hevs
        rw [hstep] at hevs
        simp at hevs
      | cons e0 tl =>
        simp only [buildHdrFlags]
        wps
        have := buildHeaderBlocks_spec cfg headers
          { isClient := (s.1.withShape sh).sm.client, isTrailer := e0 == .TrailersSent || e0 == .TrailersReceived,
            isResponse := e0 == .ResponseSent || e0 == .ResponseReceived || e0 == .InformationalResponseReceived,
            isPush := e0 == .PushedStreamReceived || e0 == .PushedRequestSent } 4 (s.1.withShape sh, s.2)
          (by show 4 < s.1.maxOutFrame; omega) (by omega)
        refine wp_mono (wp_and this (buildHeaderBlocks_proto cfg headers _ 4 (s.1.withShape sh, s.2)
          (by show 0 < s.1.maxOutFrame; omega))) ?_ ?_
        · intro blocks s' ⟨⟨hs', hfl, hne, hsz1, hsz2⟩, _⟩
          subst hs'
          wps
          refine ⟨⟨rfl, ?_, ?_⟩, ⟨blocks, hne, rfl, hsz1, fun b hb => (hsz2 b hb).1⟩, rfl, hsh⟩
          · rw [mkHeaderFrames_fragments _ _ _ (fun b eh => rfl)]; exact hfl
          · rw [mkHeaderFrames_fragments _ _ _ (fun b eh => rfl), mkHeaderFrames_length]
        · intro e s' ⟨hs', he⟩
          subst hs'; subst he
          exact ⟨rfl, rfl, rfl, hsh⟩

/-! ### `H2Connection.push_stream` -/

theorem pushPromise_serialize (sid promised : Int) (b : Bytes) (eh : Bool) (hp : 0 ≤ promised ∧ promised < 4294967296) :
    (∃ bs, (Frame.pushPromise sid promised b eh none).serialize? = some bs) ∧
    (Frame.pushPromise sid promised b eh none).bodyLen = b.length + 4 := by
  obtain ⟨a, ha, hla⟩ := u32?_some promised hp.1 hp.2
  have := ser_of_body (Frame.pushPromise sid promised b eh none) (a ++ b)
    (by simp [Frame.body?, ha, zeros]) (by simp [Frame.typeCode]) (by simp only [Frame.flagByte]; cases eh <;> simp)
  exact ⟨this.1, by rw [this.2]; simp [hla]; omega⟩

/-- the frames `push_stream` hands to `_prepare_for_sending`: every one serialises and fits -/
theorem pushFrames_fit (sid related mo : Int) (frames : List Frame) (h : PushFrames sid related mo frames)
    (hr : 0 ≤ related ∧ related < 4294967296) :
    ∀ f ∈ frames, (∃ bs, f.serialize? = some bs) ∧ (f.bodyLen : Int) ≤ mo := by
  obtain ⟨blocks, hne, hfr, hs1, hs2⟩ := h
  cases blocks with
  | nil => exact absurd rfl hne
  | cons b rest =>
    obtain ⟨eh, conts, hmk, hc⟩ := mkHeaderFrames_shape (fun b eh => Frame.pushPromise sid related b eh none) sid b rest
    rw [hmk] at hfr
    subst hfr
    intro f hf
    rcases List.mem_cons.mp hf with h | h
    · subst h
      obtain ⟨h1, h2⟩ := pushPromise_serialize sid related b eh hr
      refine ⟨h1, ?_⟩
      rw [h2]
      have := hs1 b (by simp)
      omega
    · obtain ⟨blk, eh', hfe, hmem⟩ := hc f h
      subst hfe
      obtain ⟨h1, h2⟩ := continuation_serialize sid blk eh'
      exact ⟨h1, by rw [h2]; exact hs2 blk (by simpa using hmem)⟩

/-- the new stream object takes SEND_PUSH_PROMISE: it becomes RESERVED_LOCAL and reports nothing -/
def freshPushOk : Bool :=
  match stepShape ({} : Shape) .SEND_PUSH_PROMISE with
  | (.ok [], sh) => sh.state != .IDLE
  | _ => false
theorem tbl_freshPush : freshPushOk = true := by decide +kernel

theorem locallyPushed_fresh (sid mo ow iw : Int) :
    wp Stream.locallyPushed
      (fun fr st' => fr = [] ∧ st'.sm.state ≠ .IDLE ∧ st'.ident = (freshStream sid mo ow iw).ident)
      (fun _ _ => False) (freshStream sid mo ow iw) := by
  unfold Stream.locallyPushed
  wps
  rw [wp_processInput_eq]
  have h := tbl_freshPush
  unfold freshPushOk at h
  have e : (freshStream sid mo ow iw).sm.sh = ({} : Shape) := rfl
  rw [e]
  cases hstep : stepShape ({} : Shape) .SEND_PUSH_PROMISE with
  | mk r sh =>
    rw [hstep] at h
    cases r with
    | proto => simp at h
    | streamClosed w => simp at h
    | ok evs =>
      cases evs with
      | cons _ _ => simp at h
      | nil =>
        simp only at h ⊢
        try wps
        simp only [List.isEmpty_nil, Bool.not_true, Bool.false_eq_true, if_false]
        try wps
        refine ⟨trivial, ?_, rfl⟩
        show sh.state ≠ .IDLE
        simpa using h

theorem allowed_of_instance (e : Exc) (cls : ExcClass) (h : e.isInstance cls = true) : Allowed e := by
  cases e with
  | h2 _ _ _ _ => trivial
  | py k => simp [Exc.isInstance] at h

theorem mem_setStream (c : Conn) (sid : Int) (st : Stream) (e : Int × Stream) (he : e ∈ (setStream c sid st).streams) :
    e = (sid, st) ∨ (e ∈ c.streams ∧ e.1 ≠ sid) := by
  simp only [setStream, List.mem_map] at he
  obtain ⟨e0, he0, heq⟩ := he
  split at heq
  · exact Or.inl heq.symm
  · rename_i hk
    subst heq
    exact Or.inr ⟨he0, by simpa using hk⟩

/-- SEND_PUSH_PROMISE is never accepted by a closed connection -/
theorem connTable_push_open : ∀ s t, connTable s .SEND_PUSH_PROMISE = some t → t ≠ .CLOSED := by
  intro s t; cases s <;> simp [connTable] <;> (intro h; subst h; simp)

theorem g_connInput' {Q : Unit → Conn → Prop} {E : Exc → Conn → Prop} (i : ConnectionInputs) (sid : Int) (cr : Bool)
    (c0 c : Conn) (h : G sid cr c0 c)
    (hq : ∀ c', G sid cr c0 c' → connTable c.cstate i = some c'.cstate → Q () c') (he : ∀ c', G sid cr c0 c' → E pErr c') :
    wp (connInput i) Q E c := by
  unfold wp connInput
  cases hct : connTable c.cstate i with
  | none =>
    exact he _ ⟨h.out, h.sent, h.hp, h.cfg, h.mof, h.ls, h.rs, h.fb, h.so, h.pre, fun hc => absurd rfl hc⟩
  | some t =>
    have hcl : t ≠ .CLOSED → c.cstate ≠ .CLOSED := by
      intro ht hc
      rw [hc] at hct
      exact ht (conn_closed_absorbing _ _ hct)
    exact hq _ ⟨h.out, h.sent, h.hp, h.cfg, h.mof, h.ls, h.rs, h.fb, h.so, h.pre, fun hc => h.idle (hcl hc)⟩ hct

theorem getStreamById_cases {Q : Unit → Conn → Prop} {E : Exc → Conn → Prop} (sid : Int) (c : Conn)
    (hq : hasStream c sid = true → Q () c) (he : ∀ e, Allowed e → E e c) : wp (getStreamById sid) Q E c := by
  rw [wp_getStreamById_eq]
  by_cases hs : hasStream c sid = true
  · rw [if_pos hs]; exact hq hs
  · rw [if_neg hs]
    repeat' split
    all_goals first | exact he _ (allowed_h2 _ _ _ _) | exact he _ (allowed_streamClosed _ _)

attribute [local irreducible] prepareForSending

/-- what C29 and C13 ask of `push_stream` when it returns: one `encode` call (of the normalised list), and the frames
    appended to the history are the PUSH_PROMISE + CONTINUATION frames carrying exactly that block, each within the
    peer's frame size -/
def PushStreamOk (c : Conn) (sid promised : Int) (headers : List Header) : Unit → Conn → Prop :=
  fun _ c' => c'.hp = c.hp.afterEncode (outList c.cfg headers) ∧ Kept c c' ∧
    ∃ frames, c'.sent = c.sent ++ frames ∧ PushFrames sid promised c.maxOutFrame frames ∧
      (frames.filterMap Frame.fragment?).flatten = c.hp.encoded (outList c.cfg headers)

set_option maxRecDepth 20000 in
/-- **`H2Connection.push_stream`**, any arguments, any state satisfying the invariants -/
theorem api_pushStream (sid promised : Int) (headers : List Header) (c : Conn) (hwf : WF c) (hso : SO c) :
    wp (pushStream sid promised headers) (PushStreamOk c sid promised headers) (SendHeadersErr c) c := by
  unfold pushStream PushStreamOk SendHeadersErr
  wps
  have g00 := G.refl promised hso hwf
  have gos : ∀ cr c', G promised cr c c' → OS c' = OS c := fun cr c' g => by unfold OS; rw [g.out, g.sent]
  obtain ⟨ep, hep⟩ := getItem?_of_ok c.remoteSettings _ (by decide) hwf.1.rs.2.1 hwf.1.rs.2.2
  have hep' : c.remoteSettings.enablePush = some ep := hep
  rw [hep']
  simp only
  try wps
  with_reducible apply ite_intro
  · intro _; exact ⟨allowed_pErr, trivial, trivial, g00.kept⟩
  intro _
  apply g_connInput' _ promised false c c g00
  · intro c1 g1 hct
    have hopen : c1.cstate ≠ .CLOSED := connTable_push_open _ _ hct
    try wps
    apply getStreamById_cases
    · intro hhas
      try wps
      with_reducible apply ite_intro
      · intro _; exact ⟨allowed_pErr, gos _ c1 g1, g1.hp, g1.kept⟩
      intro hodd
      unfold beginNewStream
      wps
      with_reducible apply ite_intro
      · intro _; exact ⟨allowed_h2 _ _ _ _, gos _ c1 g1, g1.hp, g1.kept⟩
      intro hlow
      with_reducible apply ite_intro
      · intro _; exact ⟨allowed_pErr, gos _ c1 g1, g1.hp, g1.kept⟩
      intro heven
      with_reducible apply ite_intro
      · intro _; exact ⟨allowed_pErr, gos _ c1 g1, g1.hp, g1.kept⟩
      intro hhigh
      have hne : sid ≠ promised := by
        intro hh; subst hh
        simp only [Bool.false_eq_true, if_false, bne_iff_ne, ne_eq, Decidable.not_not] at heven
        simp only [beq_iff_eq] at hodd
        omega
      have hprange : 0 < promised ∧ promised ≤ 2147483647 := by
        have h1 := g1.so.2.1
        have h2 := g1.so.2.2
        unfold HIGHEST_ALLOWED_STREAM_ID at hhigh
        constructor
        · by_cases ho : streamIdIsOutbound c1 promised = true
          · simp only [ho, if_true] at hlow; omega
          · simp only [ho, Bool.false_eq_true, if_false] at hlow; omega
        · omega
      apply g_createStream promised _ c c1 g1 hwf.1.ls hwf.1.rs hprange
      intro c2 g2 hhas2 hfresh hother
      obtain ⟨ow, iw, hfresh⟩ := hfresh
      try wps
      rw [wp_withStreamHp]
      rw [hasStream_lookup] at hhas
      have hl2 := hother sid hne
      cases hl : c1.streams.lookup sid with
      | none => rw [hl] at hhas; simp at hhas
      | some st =>
        rw [hl] at hl2
        rw [hl2]
        simp only
        have hst := g2.so.1 _ (lookup_mem _ _ _ hl2)
        have hmo : 16384 ≤ st.maxOutFrame := by rw [hst.2.2.2, g2.mof]; exact hwf.1.mof
        have hsid : st.sm.sid ≠ 0 := by rw [hst.1]; have := hst.2.1; omega
        have hstni : st.sm.state ≠ .IDLE := by
          intro hi
          have := (g1.idle hopen (sid, st) (lookup_mem _ _ _ hl) hi).2
          cases this
        have hstream := stream_pushInBand_full c.cfg promised headers (st, c2.hp)
          (by show 5 < st.maxOutFrame; omega) hsid hstni
        have hcs2 : ∀ st' : Stream, ∀ hp' : Hp, ({ setStream c2 sid st' with hp := hp' } : Conn).cstate = c2.cstate :=
          fun _ _ => rfl
        apply wp_mono hstream
        · intro frames s' ⟨henc, hfr, hid, hni⟩
          try wps
          rw [wp_withStream]
          have hl3 : ({ setStream c2 sid s'.1 with hp := s'.2 } : Conn).streams.lookup promised =
              some (freshStream promised c1.maxOutFrame ow iw) := by
            show (setStream c2 sid s'.1).streams.lookup promised = _
            rw [lookup_setStream_other c2 sid promised s'.1 (Ne.symm hne)]
            exact hfresh
          rw [hl3]
          simp only
          apply wp_mono (locallyPushed_fresh promised c1.maxOutFrame ow iw)
          · intro fr st'' ⟨hfr0, hni2, hid2⟩
            subst hfr0
            try wps
            rw [List.append_nil]
            have hsid' : st.sm.sid = sid := hst.1
            have hmo2 : st.maxOutFrame = c2.maxOutFrame := hst.2.2.2
            simp only at hfr
            rw [hsid', hmo2] at hfr
            have hfit := pushFrames_fit sid promised c2.maxOutFrame frames hfr ⟨by omega, by omega⟩
            apply wp_prepare_fit
            · intro f hf; exact hfit f hf
            · intro o
              have hso3 : SO (setStream c2 sid s'.1) := so_setStream c2 sid st s'.1 g2.so hl2 hid
              have hl4 : (setStream c2 sid s'.1).streams.lookup promised = some (freshStream promised c1.maxOutFrame ow iw) := hl3
              have hso4 : SO (setStream (setStream c2 sid s'.1) promised st'') :=
                so_setStream _ promised _ st'' hso3 hl4 hid2
              refine ⟨?_, ⟨hso4, g2.fb, g2.ls, g2.rs, g2.mof, g2.cfg, ?_⟩, frames, ?_, ?_, ?_⟩
              · show s'.2 = c.hp.afterEncode (outList c.cfg headers)
                rw [henc.1]
                show c2.hp.afterEncode (outList c.cfg headers) = _
                rw [g2.hp]
              · intro hcl e he hi
                rcases mem_setStream _ promised st'' e he with h1 | ⟨h1, hk1⟩
                · subst h1; exact hni2 hi
                · rcases mem_setStream c2 sid s'.1 e h1 with h2 | ⟨h2, hk2⟩
                  · subst h2; exact hni hi
                  · exact hk1 (g2.idle hcl e h2 hi).1
              · show c2.sent ++ frames = c.sent ++ frames
                rw [g2.sent]
              · rw [← g2.mof]; exact hfr
              · rw [henc.2.1]
                show c2.hp.encoded _ = _
                rw [g2.hp]
          · intro e st'' hf; exact hf.elim
        · intro e s' ⟨hhp, hinst, hid, hni⟩
          rw [hinst]
          simp only [if_true]
          try wps
          have hso3 : SO (setStream c2 sid s'.1) := so_setStream c2 sid st s'.1 g2.so hl2 hid
          refine ⟨allowed_of_instance _ _ hinst, ?_, ?_, ?_⟩
          · unfold OS setStream; simp only; rw [g2.out, g2.sent]
          · show s'.2 = c.hp; rw [hhp]; exact g2.hp
          · refine ⟨⟨?_, hso3.2.1, hso3.2.2⟩, g2.fb, g2.ls, g2.rs, g2.mof, g2.cfg, ?_⟩
            · intro e he
              exact hso3.1 e (List.mem_filter.mp he).1
            · -- the stream prepared for the promise is removed: nothing IDLE is left
              intro hcl e he hi
              obtain ⟨hmem, hk⟩ := List.mem_filter.mp he
              rcases mem_setStream c2 sid s'.1 e hmem with h2 | ⟨h2, hk2⟩
              · subst h2; exact hni hi
              · have := (g2.idle hcl e h2 hi).1
                simp [this] at hk
    · intro e hal; exact ⟨hal, gos _ c1 g1, g1.hp, g1.kept⟩
  · intro c1 g1; exact ⟨allowed_pErr, gos _ c1 g1, g1.hp, g1.kept⟩

end H2
