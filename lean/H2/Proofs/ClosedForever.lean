/-
  CLOSED is for ever: no handler and no public call takes the connection state machine out of CLOSED (the generated
  table is absorbing there, and nothing but `process_input` writes the state).
  (Lemma-per-primitive scheme as in Proofs/ClosedCap.)
-/
import H2.Proofs.ClosedCap
namespace H2
open H2.Gen H2.Conn

/-- the connection is closed -/
def ST (c : Conn) : Prop := c.cstate = .CLOSED

section
variable {α : Type} {Q : α → Conn → Prop} {E : Exc → Conn → Prop}

theorem pz_connInput {Q : Unit → Conn → Prop} (i : ConnectionInputs) (c : Conn) (h : ST c)
    (hq : ∀ c', ST c' → Q () c') (he : ∀ e c', ST c' → E e c') : wp (connInput i) Q E c := by
  unfold wp connInput
  unfold ST at h
  cases hct : connTable c.cstate i with
  | none => exact he _ _ rfl
  | some t =>
    simp only
    apply hq
    rw [h] at hct
    exact conn_closed_absorbing _ _ hct

theorem pz_withStream (sid : Int) (m : M Stream α) (c : Conn) (h : ST c)
    (hq : ∀ a c', ST c' → Q a c') (he : ∀ e c', ST c' → E e c') : wp (withStream sid m) Q E c := by
  rw [wp_withStream]
  cases c.streams.lookup sid with
  | none => exact he _ _ h
  | some st => exact wp_havoc (fun a s' => hq a _ h) (fun e s' => he e _ h)

theorem pz_getStreamById {Q : Unit → Conn → Prop} (sid : Int) (c : Conn) (h : ST c)
    (hq : ∀ c', ST c' → Q () c') (he : ∀ e c', ST c' → E e c') : wp (getStreamById sid) Q E c := by
  rw [wp_getStreamById_eq]
  repeat' split
  all_goals first | exact hq c h | exact he _ c h

theorem pz_openStreams {Q : Int → Conn → Prop} (r : Int) (c : Conn) (h : ST c)
    (hq : ∀ a c', ST c' → Q a c') : wp (openStreams r) Q E c := by
  simp only [wp, openStreams]; exact hq _ _ h

theorem pz_onConnWM {Q : Option Int → Conn → Prop} (f : WindowManager → WRes) (c : Conn) (h : ST c)
    (hq : ∀ a c', ST c' → Q a c') (he : ∀ e c', ST c' → E e c') : wp (onConnWM f) Q E c := by
  rw [wp_onConnWM]
  cases f c.inWM with
  | mk r w => cases r <;> first | exact hq _ _ h | exact he _ _ h

theorem pz_decodeHeaders {Q : List Header → Conn → Prop} (b : Bytes) (c : Conn) (h : ST c)
    (hq : ∀ a c', ST c' → Q a c') (he : ∀ e c', ST c' → E e c') : wp (decodeHeaders b) Q E c := by
  unfold decodeHeaders
  wps
  apply wp_havoc
  · intro r hp'
    cases r <;> wps <;> first | exact hq _ _ h | exact he _ _ h
  · intro e hp'; exact he _ _ h

theorem pz_fcc {Q : Unit → Conn → Prop} (o n : Int) (c : Conn) (h : ST c)
    (hq : ∀ c', ST c' → Q () c') (he : ∀ e c', ST c' → E e c') :
    wp (flowControlChangeFromSettings o n) Q E c := by
  unfold wp flowControlChangeFromSettings
  simp only
  cases flowControlChangeFromSettings.go (n - o) [] c.streams with
  | mk r ss => cases r <;> first | exact hq _ h | exact he _ _ h

theorem pz_ifcc {Q : Unit → Conn → Prop} (o n : Int) (c : Conn) (h : ST c)
    (hq : ∀ c', ST c' → Q () c') (he : ∀ e c', ST c' → E e c') :
    wp (inboundFlowControlChangeFromSettings o n) Q E c := by
  unfold wp inboundFlowControlChangeFromSettings
  simp only
  cases inboundFlowControlChangeFromSettings.go (n - o) [] c.streams with
  | mk r ss => cases r <;> first | exact hq _ h | exact he _ _ h

theorem pz_putStream {Q : Unit → Conn → Prop} (sid : Int) (st : Stream) (c : Conn) (h : ST c)
    (hq : ∀ c', ST c' → Q () c') : wp (putStream sid st) Q E c := by
  rw [wp_putStream]
  apply hq
  unfold putStream modifyS; simp only
  split <;> exact h

end

theorem localOtherChanges_st (ch : List (Int × Option Int × Int)) (c : Conn) (h : ST c) : ST (localOtherChanges ch c) := by
  unfold localOtherChanges; repeat' split
  all_goals exact h
theorem remoteOtherChanges_st (ch : List (Int × Option Int × Int)) (c : Conn) (h : ST c) : ST (remoteOtherChanges ch c) := by
  unfold remoteOtherChanges; repeat' split
  all_goals exact h

/-- close goals of the form `… .outWin = s0` / continue through a method that never writes frames -/
macro "pz_auto" : tactic => `(tactic|
  repeat' (first
    | assumption
    | (apply localOtherChanges_st; assumption)
    | (apply remoteOtherChanges_st; assumption)
    | (apply pz_connInput _ _ (by assumption))
    | (apply pz_withStream _ _ _ (by assumption))
    | (apply pz_getStreamById _ _ (by assumption))
    | (apply pz_openStreams _ _ (by assumption))
    | (apply pz_onConnWM _ _ (by assumption))
    | (apply pz_decodeHeaders _ _ (by assumption))
    | (apply pz_fcc _ _ _ (by assumption))
    | (apply pz_ifcc _ _ _ (by assumption))
    | (apply pz_putStream _ _ _ (by assumption))
    | (intro _)
    | wps
    | split))

abbrev PZ (m : CM α) (c : Conn) : Prop := ST c → wp m (fun _ c' => ST c') (fun _ c' => ST c') c

theorem pz_ping (a : Bool) (p : Bytes) (c : Conn) : PZ (receivePingFrame a p) c := by
  intro h
  unfold receivePingFrame; pz_auto
theorem pz_priority (sid : Int) (p : Prio) (c : Conn) : PZ (receivePriorityFrame sid p) c := by
  intro h
  unfold receivePriorityFrame; pz_auto


theorem pz_goaway (l k : Int) (x : Bytes) (c : Conn) : PZ (receiveGoawayFrame l k x) c := by
  intro h
  unfold receiveGoawayFrame clearOutboundDataBuffer; pz_auto
theorem pz_rst (sid code : Int) (c : Conn) : PZ (receiveRstStreamFrame sid code) c := by
  intro h
  unfold receiveRstStreamFrame; pz_auto
theorem pz_altsvc (sid : Int) (o f : Bytes) (c : Conn) : PZ (receiveAltSvcFrame sid o f) c := by
  intro h
  unfold receiveAltSvcFrame; pz_auto
theorem pz_cont (sid : Int) (c : Conn) : PZ (receiveNakedContinuation sid) c := by
  intro h
  unfold receiveNakedContinuation; pz_auto
theorem pz_data (sid : Int) (p : Bytes) (es : Bool) (fcl : Int) (c : Conn) : PZ (receiveDataFrame sid p es fcl) c := by
  intro h
  unfold receiveDataFrame; pz_auto
theorem pz_settings (ack : Bool) (items : List (Int × Int)) (c : Conn) : PZ (receiveSettingsFrame ack items) c := by
  intro h
  unfold receiveSettingsFrame localSettingsAcked acknowledgeSettings localWindowChange remoteWindowChange
  pz_auto


theorem pz_use {α : Type} {Q : α → Conn → Prop} {E : Exc → Conn → Prop} {m : CM α} (hm : ∀ c, PZ m c) (c : Conn)
    (h : ST c) (hq : ∀ a c', ST c' → Q a c') (he : ∀ e c', ST c' → E e c') :
    wp m Q E c :=
  wp_mono (hm c h) (fun a c' h' => hq a c' h') (fun e c' h' => he e c' h')

theorem pz_createStream (sid : Int) (ob : Bool) (c : Conn) : PZ (createStream sid ob) c := by
  intro h
  unfold createStream optInt?
  pz_auto

theorem pz_beginNewStream (sid : Int) (odd : Bool) (c : Conn) : PZ (beginNewStream sid odd) c := by
  intro h
  unfold beginNewStream
  repeat' (first | assumption | (apply pz_use (pz_createStream _ _) _ (by assumption)) | (intro _) | wps | split)

theorem pz_getOrCreateStream (sid : Int) (odd : Bool) (c : Conn) : PZ (getOrCreateStream sid odd) c := by
  intro h
  unfold getOrCreateStream
  repeat' (first | assumption | (apply pz_use (pz_beginNewStream _ _) _ (by assumption)) | (intro _) | wps | split)

theorem pz_refuse (p : Int) (c : Conn) : PZ (refusePushedStream p) c := by
  intro h
  have e : (refusePushedStream p c).2 = (if (!streamIdIsOutbound c p && decide (p > c.highestIn)) = true then
      ({ c with highestIn := p, closedStreams := closedInsert c.closedStreams p (some .SEND_RST_STREAM) } : Conn) else c) := rfl
  have hc : ST (refusePushedStream p c).2 := by
    rw [e]
    split <;> exact h
  unfold wp
  cases hr : refusePushedStream p c with
  | mk r c' =>
    rw [hr] at hc
    cases r <;> exact hc

macro "pz_auto2" : tactic => `(tactic|
  repeat' (first
    | assumption
    | (apply pz_use (pz_getOrCreateStream _ _) _ (by assumption))
    | (apply pz_use (pz_beginNewStream _ _) _ (by assumption))
    | (apply pz_use (pz_priority _ _) _ (by assumption))
    | (apply pz_use (pz_refuse _) _ (by assumption))
    | (apply pz_connInput _ _ (by assumption))
    | (apply pz_withStream _ _ _ (by assumption))
    | (apply pz_getStreamById _ _ (by assumption))
    | (apply pz_openStreams _ _ (by assumption))
    | (apply pz_decodeHeaders _ _ (by assumption))
    | (intro _)
    | wps
    | split))

theorem pz_headersRest (sid : Int) (b : Bytes) (es : Bool) (pr : Option Prio) (c : Conn) : PZ (receiveHeadersRest sid b es pr) c := by
  intro h
  unfold receiveHeadersRest
  pz_auto2

theorem pz_headers (sid : Int) (b : Bytes) (es : Bool) (pr : Option Prio) (c : Conn) : PZ (receiveHeadersFrame sid b es pr) c := by
  intro h
  unfold receiveHeadersFrame openInboundStreams
  repeat' (first
    | assumption
    | (apply pz_use (pz_headersRest _ _ _ _) _ (by assumption))
    | (apply pz_openStreams _ _ (by assumption))
    | (intro _)
    | wps
    | split)

theorem pz_pushKnown (sid p : Int) (hs : List Header) (c : Conn) : PZ (receivePushPromiseKnown sid p hs) c := by
  intro h
  unfold receivePushPromiseKnown openInboundStreams
  pz_auto2

theorem pz_pushUnknown (sid p : Int) (c : Conn) : PZ (receivePushPromiseUnknown sid p) c := by
  intro h
  unfold receivePushPromiseUnknown
  pz_auto2

theorem pz_push (sid p : Int) (b : Bytes) (c : Conn) : PZ (receivePushPromiseFrame sid p b) c := by
  intro h
  unfold receivePushPromiseFrame
  repeat' (first
    | assumption
    | (apply pz_use (pz_pushKnown _ _ _) _ (by assumption))
    | (apply pz_use (pz_pushUnknown _ _) _ (by assumption))
    | (apply pz_connInput _ _ (by assumption))
    | (apply pz_getStreamById _ _ (by assumption))
    | (apply pz_decodeHeaders _ _ (by assumption))
    | (intro _)
    | wps
    | split)


theorem pz_windowUpdate (sid incr : Int) (c : Conn) : PZ (receiveWindowUpdateFrame sid incr) c := by
  intro h
  unfold receiveWindowUpdateFrame; pz_auto

theorem pz_dispatch (rf : RFrame) (c : Conn) : PZ (dispatch rf) c := by
  unfold dispatch
  split
  · exact pz_headers _ _ _ _ c
  · exact pz_push _ _ _ c
  · exact pz_settings _ _ c
  · exact pz_data _ _ _ _ c
  · exact pz_windowUpdate _ _ c
  · exact pz_ping _ _ c
  · exact pz_rst _ _ c
  · exact pz_priority _ _ c
  · exact pz_goaway _ _ _ c
  · exact pz_cont _ c
  · exact pz_altsvc _ _ _ c
  · intro h; wps; exact h

theorem pz_prepare {Q : Unit → Conn → Prop} {E : Exc → Conn → Prop} (fs : List Frame) (c : Conn) (h : ST c)
    (hq : ∀ c', ST c' → Q () c') (he : ∀ e c', ST c' → E e c') : wp (prepareForSending fs) Q E c := by
  unfold prepareForSending
  wps
  split
  · exact hq c h
  · cases fs.mapM Frame.serialize? with
    | none => exact he _ c h
    | some bs =>
      simp only
      wps
      split
      · exact hq _ h
      · exact he _ _ h

theorem pz_withStreamHp {α : Type} {Q : α → Conn → Prop} {E : Exc → Conn → Prop} (sid : Int) (m : SH α) (c : Conn) (h : ST c)
    (hq : ∀ a c', ST c' → Q a c') (he : ∀ e c', ST c' → E e c') : wp (withStreamHp sid m) Q E c := by
  rw [wp_withStreamHp]
  cases c.streams.lookup sid with
  | none => exact he _ _ h
  | some st => exact wp_havoc (fun a s' => hq a _ h) (fun e s' => he e _ h)

/-- **`receive_data` keeps the memory of closed streams within its cap**, whatever the bytes -/
theorem stable_ST : Stable ST where
  fb := fun _ _ h => h
  connInput := fun i c h => by apply pz_connInput _ _ h <;> (intros; assumption)
  prepare := fun fs c h => by apply pz_prepare _ _ h <;> (intros; assumption)
  dispatch := fun rf c h => pz_dispatch rf c h

theorem receiveData_st (d : Bytes) (c : Conn) (h : ST c) : ST (receiveData d c).2 := stable_receiveData stable_ST d c h

/-! ### the public calls -/

macro "pz_api" : tactic => `(tactic|
  repeat' (first
    | assumption
    | (apply pz_connInput _ _ (by assumption))
    | (apply pz_withStream _ _ _ (by assumption))
    | (apply pz_withStreamHp _ _ _ (by assumption))
    | (apply pz_getStreamById _ _ (by assumption))
    | (apply pz_openStreams _ _ (by assumption))
    | (apply pz_onConnWM _ _ (by assumption))
    | (apply pz_prepare _ _ (by assumption))
    | (apply pz_use (pz_getOrCreateStream _ _) _ (by assumption))
    | (apply pz_use (pz_beginNewStream _ _) _ (by assumption))
    | (apply pz_use (pz_settings _ _) _ (by assumption))
    | (with_reducible apply ite_intro)
    | (intro _)
    | wps
    | split))

theorem pz_apiPing (d : Bytes) (c : Conn) : PZ (ping d) c := by
  intro h; unfold ping; pz_api
theorem pz_apiResetStream (sid code : Int) (c : Conn) : PZ (resetStream sid code) c := by
  intro h; unfold resetStream; pz_api
theorem pz_apiEndStream (sid : Int) (c : Conn) : PZ (endStream sid) c := by
  intro h; unfold endStream; pz_api
set_option maxRecDepth 100000 in
theorem pz_apiIncrementWindow (n : Int) (sid : Option Int) (c : Conn) : PZ (incrementFlowControlWindow n sid) c := by
  intro h; unfold incrementFlowControlWindow; pz_api
theorem pz_apiCloseConnection (code : Int) (extra : Option Bytes) (last : Option Int) (c : Conn) :
    PZ (closeConnection code extra last) c := by
  intro h; unfold closeConnection; pz_api
theorem pz_apiUpdateSettings (items : List (Int × Int)) (c : Conn) : PZ (updateSettings items) c := by
  intro h; unfold updateSettings; pz_api
set_option maxRecDepth 100000 in
theorem pz_apiAltsvc (f : Bytes) (o : Option Bytes) (sid : Option Int) (c : Conn) :
    PZ (advertiseAlternativeService f o sid) c := by
  intro h
  unfold advertiseAlternativeService
  cases o with
  | none =>
    cases sid with
    | none => wps; simp only [Option.isSome_none, Bool.and_self, Bool.false_eq_true, if_false, Option.isNone_none, if_true]; exact h
    | some s =>
      wps
      simp only [Option.isSome_none, Bool.false_and, Bool.false_eq_true, if_false, Option.isNone_none, Option.isNone_some,
        Bool.and_false]
      pz_api
  | some ov =>
    wps
    cases sid with
    | some s => simp only [Option.isSome_some, Bool.and_self, if_true]; exact h
    | none =>
      simp only [Option.isSome_some, Option.isSome_none, Bool.and_false, Bool.false_eq_true, if_false, Option.isNone_some,
        Bool.false_and]
      with_reducible apply ite_intro
      · intro _; exact h
      intro hx; clear hx
      with_reducible apply ite_intro
      · intro _; exact h
      intro hx; clear hx
      with_reducible apply ite_intro
      · intro _; exact h
      intro hx; clear hx
      apply pz_connInput _ _ h
      · intro c1 h1
        wps
        generalize [Frame.altsvc 0 ov f] = fs
        apply pz_prepare _ _ h1
        · intro _ h2; exact h2
        · intro _ _ h2; exact h2
      · intro _ _ h2; exact h2
theorem pz_apiPrioritize (sid : Int) (w d : Option Int) (e : Option Bool) (c : Conn) : PZ (prioritize sid w d e) c := by
  intro h; unfold prioritize; pz_api
theorem pz_apiAckData (size sid : Int) (c : Conn) : PZ (acknowledgeReceivedData size sid) c := by
  intro h; unfold acknowledgeReceivedData ackCredit; pz_api
theorem pz_apiDataToSend (n : Option Int) (c : Conn) : PZ (dataToSend n) c := by
  intro h; unfold dataToSend; pz_api
theorem pz_apiClearOut (c : Conn) : PZ clearOutboundDataBuffer c := by
  intro h; unfold clearOutboundDataBuffer; pz_api
theorem pz_apiLocalWindow (sid : Int) (c : Conn) : PZ (localFlowControlWindow sid) c := by
  intro h; unfold localFlowControlWindow; pz_api
theorem pz_apiRemoteWindow (sid : Int) (c : Conn) : PZ (remoteFlowControlWindow sid) c := by
  intro h; unfold remoteFlowControlWindow; pz_api
theorem pz_apiNextStreamId (c : Conn) : PZ getNextAvailableStreamId c := by
  intro h; unfold getNextAvailableStreamId; pz_api
theorem pz_apiOpenOut (c : Conn) : PZ openOutboundStreams c := by
  intro h; unfold openOutboundStreams; pz_api
theorem pz_apiOpenIn (c : Conn) : PZ openInboundStreams c := by
  intro h; unfold openInboundStreams; pz_api
theorem pz_apiSendData (sid : Int) (d : Bytes) (es : Bool) (pad : Option Int) (c : Conn) : PZ (sendData sid d es pad) c := by
  intro h; unfold sendData sendDataCore localFlowControlWindow; pz_api
theorem pz_apiSendHeaders (sid : Int) (hs : List Header) (es : Bool) (pw pd : Option Int) (pe : Option Bool) (c : Conn) :
    PZ (sendHeaders sid hs es pw pd pe) c := by
  intro h; unfold sendHeaders sendHeadersTail addPriority openOutboundStreams; pz_api
theorem pz_apiPushStream (sid p : Int) (hs : List Header) (c : Conn) : PZ (pushStream sid p hs) c := by
  intro h; unfold pushStream; pz_api
theorem pz_apiInitiate (c : Conn) : PZ initiateConnection c := by
  intro h; unfold initiateConnection settingsFrameOfLocal; pz_api
theorem pz_apiUpgrade (hdr : Option Bytes) (c : Conn) :
    PZ (initiateUpgradeConnection (fun items => do let _ ← receiveSettingsFrame false items; pure ()) hdr) c := by
  intro h
  unfold initiateUpgradeConnection settingsFrameOfLocal
  repeat' (first
    | assumption
    | (apply pz_use (pz_apiInitiate) _ (by assumption))
    | (apply pz_connInput _ _ (by assumption))
    | (apply pz_withStream _ _ _ (by assumption))
    | (apply pz_use (pz_beginNewStream _ _) _ (by assumption))
    | (apply pz_use (pz_settings _ _) _ (by assumption))
    | (intro _)
    | wps
    | split)

end H2
