/-
  C19, the receive side: on a CLOSED connection `_receive_frame` writes nothing — every handler dies at its
  connection-state-machine input (only the GOAWAY handler and unknown frame types get through, and they return no
  frames), and the `except` clauses that would answer with RST_STREAM die at theirs.  What `receive_data` writes on a
  closed connection is therefore at most the one GOAWAY of `_terminate_connection`; and CLOSED is for ever.
-/
import H2.Proofs.RecvEmits
import H2.Proofs.RecvLoop
namespace H2
open H2.Gen H2.Conn

/-- closed, and the history of written frames is `s0` -/
def CS (s0 : List Frame) (c : Conn) : Prop := c.cstate = .CLOSED ∧ c.sent = s0

section
variable {α : Type} {Q : α → Conn → Prop} {E : Exc → Conn → Prop} {s0 : List Frame}

/-- an input the CLOSED state refuses: the call dies there -/
theorem cs_connInput_dead {Q : Unit → Conn → Prop} (i : ConnectionInputs) (c : Conn) (h : CS s0 c)
    (hi : connTable .CLOSED i = none) (he : ∀ e c', CS s0 c' → E e c') : wp (connInput i) Q E c := by
  obtain ⟨h1, h2⟩ := h
  simp only [wp, connInput, h1, hi]
  exact he _ _ ⟨rfl, h2⟩

/-- one of the two GOAWAY inputs: accepted, still CLOSED -/
theorem cs_connInput_goaway {Q : Unit → Conn → Prop} (i : ConnectionInputs) (c : Conn) (h : CS s0 c)
    (hi : connTable .CLOSED i = some .CLOSED) (hq : ∀ c', CS s0 c' → Q () c') : wp (connInput i) Q E c := by
  obtain ⟨h1, h2⟩ := h
  simp only [wp, connInput, h1, hi]
  exact hq _ ⟨rfl, h2⟩

theorem cs_getStreamById {Q : Unit → Conn → Prop} (sid : Int) (c : Conn) (h : CS s0 c)
    (hq : ∀ c', CS s0 c' → Q () c') (he : ∀ e c', CS s0 c' → E e c') : wp (getStreamById sid) Q E c := by
  rw [wp_getStreamById_eq]
  repeat' split
  all_goals first | exact hq c h | exact he _ c h

theorem cs_withStream (sid : Int) (m : M Stream α) (c : Conn) (h : CS s0 c)
    (hq : ∀ a c', CS s0 c' → Q a c') (he : ∀ e c', CS s0 c' → E e c') : wp (withStream sid m) Q E c := by
  rw [wp_withStream]
  cases c.streams.lookup sid with
  | none => exact he _ _ h
  | some st => exact wp_havoc (fun a s' => hq a _ h) (fun e s' => he e _ h)

theorem cs_openStreams {Q : Int → Conn → Prop} (r : Int) (c : Conn) (h : CS s0 c)
    (hq : ∀ a c', CS s0 c' → Q a c') : wp (openStreams r) Q E c := by
  simp only [wp, openStreams]; exact hq _ _ h

theorem cs_decodeHeaders {Q : List Header → Conn → Prop} (b : Bytes) (c : Conn) (h : CS s0 c)
    (hq : ∀ a c', CS s0 c' → Q a c') (he : ∀ e c', CS s0 c' → E e c') : wp (decodeHeaders b) Q E c := by
  unfold decodeHeaders
  wps
  apply wp_havoc
  · intro r hp'
    cases r <;> wps <;> first | exact hq _ _ h | exact he _ _ h
  · intro e hp'; exact he _ _ h

end

/-- a handler that never returns on a closed connection and writes nothing -/
abbrev DeadCS (s0 : List Frame) (m : CM FE) (c : Conn) : Prop := wp m (fun _ _ => False) (fun _ c' => CS s0 c') c

macro "cs_auto" : tactic => `(tactic|
  repeat' (first
    | assumption
    | (apply cs_connInput_dead _ _ (by assumption) (by decide))
    | (apply cs_getStreamById _ _ (by assumption))
    | (apply cs_withStream _ _ _ (by assumption))
    | (apply cs_openStreams _ _ (by assumption))
    | (apply cs_decodeHeaders _ _ (by assumption))
    | (intro _)
    | wps
    | split))

theorem dead_settings (s0) (ack : Bool) (items : List (Int × Int)) (c : Conn) (h : CS s0 c) :
    DeadCS s0 (receiveSettingsFrame ack items) c := by
  unfold DeadCS receiveSettingsFrame; cs_auto
theorem dead_data (s0) (sid : Int) (p : Bytes) (es : Bool) (fcl : Int) (c : Conn) (h : CS s0 c) :
    DeadCS s0 (receiveDataFrame sid p es fcl) c := by
  unfold DeadCS receiveDataFrame; cs_auto
theorem dead_windowUpdate (s0) (sid incr : Int) (c : Conn) (h : CS s0 c) : DeadCS s0 (receiveWindowUpdateFrame sid incr) c := by
  unfold DeadCS receiveWindowUpdateFrame; cs_auto
theorem dead_ping (s0) (a : Bool) (p : Bytes) (c : Conn) (h : CS s0 c) : DeadCS s0 (receivePingFrame a p) c := by
  unfold DeadCS receivePingFrame; cs_auto
theorem dead_rst (s0) (sid code : Int) (c : Conn) (h : CS s0 c) : DeadCS s0 (receiveRstStreamFrame sid code) c := by
  unfold DeadCS receiveRstStreamFrame; cs_auto
theorem dead_priority (s0) (sid : Int) (p : Prio) (c : Conn) (h : CS s0 c) : DeadCS s0 (receivePriorityFrame sid p) c := by
  unfold DeadCS receivePriorityFrame; cs_auto
theorem dead_altsvc (s0) (sid : Int) (o f : Bytes) (c : Conn) (h : CS s0 c) : DeadCS s0 (receiveAltSvcFrame sid o f) c := by
  unfold DeadCS receiveAltSvcFrame; cs_auto
theorem dead_cont (s0) (sid : Int) (c : Conn) (h : CS s0 c) : DeadCS s0 (receiveNakedContinuation sid) c := by
  unfold DeadCS receiveNakedContinuation; cs_auto
theorem dead_headers (s0) (sid : Int) (b : Bytes) (es : Bool) (pr : Option Prio) (c : Conn) (h : CS s0 c) :
    DeadCS s0 (receiveHeadersFrame sid b es pr) c := by
  unfold DeadCS receiveHeadersFrame receiveHeadersRest openInboundStreams; cs_auto
theorem dead_push (s0) (sid p : Int) (b : Bytes) (c : Conn) (h : CS s0 c) : DeadCS s0 (receivePushPromiseFrame sid p b) c := by
  unfold DeadCS receivePushPromiseFrame; cs_auto

theorem of_dead {s0 : List Frame} {m : CM FE} {c : Conn} (h : DeadCS s0 m c) :
    wp m (fun fe c' => fe.1 = [] ∧ CS s0 c') (fun _ c' => CS s0 c') c :=
  wp_mono h (fun _ _ hf => hf.elim) (fun _ _ h' => h')

/-- on a closed connection a handler either dies having written nothing, or (GOAWAY, unknown frame types) returns no frames -/
theorem closed_dispatch (s0 : List Frame) (rf : RFrame) (c : Conn) (h : CS s0 c) :
    wp (dispatch rf) (fun fe c' => fe.1 = [] ∧ CS s0 c') (fun _ c' => CS s0 c') c := by
  unfold dispatch
  split
  · exact of_dead (dead_headers s0 _ _ _ _ c h)
  · exact of_dead (dead_push s0 _ _ _ c h)
  · exact of_dead (dead_settings s0 _ _ c h)
  · exact of_dead (dead_data s0 _ _ _ _ c h)
  · exact of_dead (dead_windowUpdate s0 _ _ c h)
  · exact of_dead (dead_ping s0 _ _ c h)
  · exact of_dead (dead_rst s0 _ _ c h)
  · exact of_dead (dead_priority s0 _ _ c h)
  · unfold receiveGoawayFrame clearOutboundDataBuffer
    wps
    apply cs_connInput_goaway _ _ h (by decide)
    intro c1 h1
    wps
    exact ⟨trivial, h1⟩
  · exact of_dead (dead_cont s0 _ c h)
  · exact of_dead (dead_altsvc s0 _ _ _ c h)
  · wps; exact ⟨trivial, h⟩

/-- the `except` clauses of `_receive_frame` on a closed connection: the RST_STREAM they would send is refused by the
    connection state machine -/
theorem closed_frameErrorHandler (s0 : List Frame) (e : Exc) (c : Conn) (h : CS s0 c) :
    wp (frameErrorHandler e) (fun _ c' => CS s0 c') (fun _ c' => CS s0 c') c := by
  unfold frameErrorHandler
  cases e with
  | py k => exact h
  | h2 cls code esid evs =>
    simp only
    split
    · wps
      split
      · try wps
        apply cs_connInput_dead _ _ h (by decide)
        intro _ _ h'; exact h'
      · exact h
    · wps
      split
      · try wps
        apply cs_connInput_dead _ _ h (by decide)
        intro _ _ h'; exact h'
      · split <;> exact h

/-- **`_receive_frame` on a closed connection writes nothing** -/
theorem closed_receiveFrame (s0 : List Frame) (rf : RFrame) (c : Conn) (h : CS s0 c) :
    wp (receiveFrame rf) (fun _ c' => CS s0 c') (fun _ c' => CS s0 c') c := by
  unfold receiveFrame
  wps
  refine wp_mono (closed_dispatch s0 rf c h) ?_ ?_
  · intro fe c1 h1
    obtain ⟨frames, events⟩ := fe
    obtain ⟨hf, hc1⟩ := h1
    simp only at hf
    subst hf
    try wps
    unfold prepareForSending
    wps
    simp only [List.isEmpty_nil, if_true]
    try wps
    exact hc1
  · intro e c1 h1
    split
    · try wps
      refine wp_mono (closed_frameErrorHandler s0 e c1 h1) ?_ (fun _ _ h' => h')
      intro evs c2 h2; wps; exact h2
    · exact h1

/-! ### the loop and `receive_data` -/

theorem cs_setFb {s0 : List Frame} {c : Conn} (h : CS s0 c) (fb : FrameBuffer) : CS s0 { c with fb := fb } := h

theorem hideFb_keeps {α : Type} {P : Conn → Prop} (hfb : ∀ c fb, P c → P { c with fb := fb }) (m : CM α) (c : Conn)
    (hm : wp m (fun _ c' => P c') (fun _ c' => P c') { c with fb := {} }) : P (hideFb m c).2 := by
  unfold hideFb
  unfold wp at hm
  cases hmc : m { c with fb := {} } with
  | mk r c' =>
    rw [hmc] at hm
    simp only
    have hc' : P c' := by cases r <;> exact hm
    exact hfb c' c.fb hc'

theorem recvLoop_cs (s0 : List Frame) (fuel : Nat) (evs : List Event) (c : Conn) (h : CS s0 c) :
    CS s0 (recvLoop fuel evs c).2 := by
  induction fuel generalizing evs c with
  | zero => exact h
  | succ n ih =>
    rw [recvLoop_succ]
    cases hnx : FrameBuffer.next (c.fb.data.length + 1) c.fb with
    | mk r fb =>
      cases r with
      | error e => exact h
      | ok o =>
        cases o with
        | none => exact h
        | some rf =>
          simp only
          have h1 : CS s0 (hideFb (receiveFrame rf) { c with fb := fb }).2 :=
            hideFb_keeps (fun _ _ h' => h') (receiveFrame rf) { c with fb := fb } (closed_receiveFrame s0 rf _ h)
          cases hm : hideFb (receiveFrame rf) { c with fb := fb } with
          | mk r2 c2 =>
            rw [hm] at h1
            cases r2 with
            | error e => exact h1
            | ok es => exact ih _ _ h1

/-- closed; the history of written frames is `s0`, or `s0` and one GOAWAY -/
def QG (s0 : List Frame) (c : Conn) : Prop :=
  c.cstate = .CLOSED ∧ (c.sent = s0 ∨ ∃ last code, c.sent = s0 ++ [Frame.goaway last code []])

theorem closed_terminate (s0 : List Frame) (code : Int) (c : Conn) (h : CS s0 c) :
    wp (terminateConnection code) (fun _ c' => QG s0 c') (fun _ c' => QG s0 c') c := by
  unfold terminateConnection
  wps
  apply cs_connInput_goaway _ _ h (by decide)
  intro c1 h1
  have hhi : c1.highestIn = c1.highestIn := rfl
  unfold prepareForSending
  wps
  simp only [List.isEmpty_cons, Bool.false_eq_true, if_false]
  cases hser : List.mapM Frame.serialize? [Frame.goaway c.highestIn code []] with
  | none => simp only; wps; exact ⟨h1.1, Or.inl h1.2⟩
  | some bs =>
    simp only
    wps
    have hq : QG s0 { c1 with out := c1.out ++ bs.foldl (· ++ ·) [], sent := c1.sent ++ [Frame.goaway c.highestIn code []] } :=
      ⟨h1.1, Or.inr ⟨c.highestIn, code, by show c1.sent ++ _ = s0 ++ _; rw [h1.2]⟩⟩
    split <;> exact hq

theorem closed_handleRecvError (s0 : List Frame) (e : Exc) (c : Conn) (h : CS s0 c) :
    wp (handleRecvError e) (fun _ c' => QG s0 c') (fun _ c' => QG s0 c') c := by
  have hq : QG s0 c := ⟨h.1, Or.inl h.2⟩
  unfold handleRecvError
  split
  · wps
    refine wp_mono (closed_terminate s0 _ c h) ?_ (fun _ _ h' => h')
    intro _ c1 h1; wps; exact h1
  · split
    · split
      · wps
        refine wp_mono (closed_terminate s0 _ c h) ?_ (fun _ _ h' => h')
        intro _ c1 h1; wps; exact h1
      · exact hq
    · exact hq
  · exact hq

/-- **`receive_data` on a closed connection**: whatever the bytes, the connection stays closed and at most one frame is
    written, a GOAWAY -/
theorem receiveData_closed (d : Bytes) (c : Conn) (hc : c.cstate = .CLOSED) :
    (receiveData d c).2.cstate = .CLOSED ∧
    ((receiveData d c).2.sent = c.sent ∨ ∃ last code, (receiveData d c).2.sent = c.sent ++ [Frame.goaway last code []]) := by
  show QG c.sent (receiveData d c).2
  have h : CS c.sent c := ⟨hc, rfl⟩
  unfold receiveData
  cases FrameBuffer.addData c.fb d with
  | error e => exact ⟨hc, Or.inl rfl⟩
  | ok fb =>
    simp only
    have h1 := recvLoop_cs c.sent (fb.data.length + 1) [] { c with fb := { fb with maxFrameSize := c.maxInFrame } } h
    cases hl : recvLoop (fb.data.length + 1) [] { c with fb := { fb with maxFrameSize := c.maxInFrame } } with
    | mk r c1 =>
      rw [hl] at h1
      cases r with
      | ok evs => exact ⟨h1.1, Or.inl h1.2⟩
      | error e =>
        exact hideFb_keeps (P := QG c.sent) (fun _ _ h' => h') (handleRecvError e) c1 (closed_handleRecvError c.sent e _ h1)

end H2
