/- checked on every run: the function regenerated from /repo is the reference definition -/
import H2.Gen.WindowsRaw
import H2.Gen.BridgeTac
namespace H2.Bridge
open H2.Gen

theorem maybe_update_window_eq (s : WindowManager) :
    GenRaw.WindowManager.maybe_update_window s = WindowManager.maybe_update_window s := by
  bridge GenRaw.WindowManager.maybe_update_window WindowManager.maybe_update_window

end H2.Bridge
