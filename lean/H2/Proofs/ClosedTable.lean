/-
  A closed connection takes no new streams: on a CLOSED connection every frame handler dies at its connection-state-
  machine input, and what runs before that input (the HPACK decoder, the clean-up of `_open_streams` that counting the
  open streams triggers) adds nothing to the stream table.  Same structure as Proofs/ClosedRecv, for the predicate
  "closed, and every id in the table satisfies T" (T: the ids that were there to begin with).  Written after mutant
  C27-e, which created the stream before asking the connection state machine.
-/
import H2.Proofs.ClosedRecv
import H2.Proofs.PushStream
namespace H2
open H2.Gen H2.Conn

/-- closed, and every stream id in the table satisfies `s0` -/
def CT (s0 : Int → Prop) (c : Conn) : Prop := c.cstate = .CLOSED ∧ ∀ e ∈ c.streams, s0 e.1

section
variable {α : Type} {Q : α → Conn → Prop} {E : Exc → Conn → Prop} {s0 : (Int → Prop)}

/-- an input the CLOSED state refuses: the call dies there -/
theorem ct_connInput_dead {Q : Unit → Conn → Prop} (i : ConnectionInputs) (c : Conn) (h : CT s0 c)
    (hi : connTable .CLOSED i = none) (he : ∀ e c', CT s0 c' → E e c') : wp (connInput i) Q E c := by
  obtain ⟨h1, h2⟩ := h
  simp only [wp, connInput, h1, hi]
  exact he _ _ ⟨rfl, h2⟩

/-- one of the two GOAWAY inputs: accepted, still CLOSED -/
theorem ct_connInput_goaway {Q : Unit → Conn → Prop} (i : ConnectionInputs) (c : Conn) (h : CT s0 c)
    (hi : connTable .CLOSED i = some .CLOSED) (hq : ∀ c', CT s0 c' → Q () c') : wp (connInput i) Q E c := by
  obtain ⟨h1, h2⟩ := h
  simp only [wp, connInput, h1, hi]
  exact hq _ ⟨rfl, h2⟩

theorem ct_getStreamById {Q : Unit → Conn → Prop} (sid : Int) (c : Conn) (h : CT s0 c)
    (hq : ∀ c', CT s0 c' → Q () c') (he : ∀ e c', CT s0 c' → E e c') : wp (getStreamById sid) Q E c := by
  rw [wp_getStreamById_eq]
  repeat' split
  all_goals first | exact hq c h | exact he _ c h

theorem ct_withStream (sid : Int) (m : M Stream α) (c : Conn) (h : CT s0 c)
    (hq : ∀ a c', CT s0 c' → Q a c') (he : ∀ e c', CT s0 c' → E e c') : wp (withStream sid m) Q E c := by
  rw [wp_withStream]
  cases hl : c.streams.lookup sid with
  | none => exact he _ _ h
  | some st =>
    have hk : ∀ st', CT s0 (setStream c sid st') := by
      intro st'
      refine ⟨h.1, ?_⟩
      intro e hmem
      rcases mem_setStream c sid st' e hmem with heq | ⟨h0, _⟩
      · subst heq
        exact h.2 (sid, st) (lookup_mem _ _ _ hl)
      · exact h.2 _ h0
    exact wp_havoc (fun a s' => hq a _ (hk s')) (fun e s' => he e _ (hk s'))

theorem ct_openStreams {Q : Int → Conn → Prop} (r : Int) (c : Conn) (h : CT s0 c)
    (hq : ∀ a c', CT s0 c' → Q a c') : wp (openStreams r) Q E c := by
  simp only [wp, openStreams]
  refine hq _ _ ⟨h.1, ?_⟩
  intro e hmem
  exact h.2 _ (List.mem_filter.mp hmem).1

theorem ct_decodeHeaders {Q : List Header → Conn → Prop} (b : Bytes) (c : Conn) (h : CT s0 c)
    (hq : ∀ a c', CT s0 c' → Q a c') (he : ∀ e c', CT s0 c' → E e c') : wp (decodeHeaders b) Q E c := by
  unfold decodeHeaders
  wps
  apply wp_havoc
  · intro r hp'
    cases r <;> wps <;> first | exact hq _ _ h | exact he _ _ h
  · intro e hp'; exact he _ _ h

end

/-- a handler that never returns on a closed connection and writes nothing -/
abbrev DeadCT (s0 : (Int → Prop)) (m : CM FE) (c : Conn) : Prop := wp m (fun _ _ => False) (fun _ c' => CT s0 c') c

macro "ct_auto" : tactic => `(tactic|
  repeat' (first
    | assumption
    | (apply ct_connInput_dead _ _ (by assumption) (by decide))
    | (apply ct_getStreamById _ _ (by assumption))
    | (apply ct_withStream _ _ _ (by assumption))
    | (apply ct_openStreams _ _ (by assumption))
    | (apply ct_decodeHeaders _ _ (by assumption))
    | (intro _)
    | wps
    | split))

theorem deadt_settings (s0 : Int → Prop) (ack : Bool) (items : List (Int × Int)) (c : Conn) (h : CT s0 c) :
    DeadCT s0 (receiveSettingsFrame ack items) c := by
  unfold DeadCT receiveSettingsFrame; ct_auto
theorem deadt_data (s0 : Int → Prop) (sid : Int) (p : Bytes) (es : Bool) (fcl : Int) (c : Conn) (h : CT s0 c) :
    DeadCT s0 (receiveDataFrame sid p es fcl) c := by
  unfold DeadCT receiveDataFrame; ct_auto
theorem deadt_windowUpdate (s0 : Int → Prop) (sid incr : Int) (c : Conn) (h : CT s0 c) : DeadCT s0 (receiveWindowUpdateFrame sid incr) c := by
  unfold DeadCT receiveWindowUpdateFrame; ct_auto
theorem deadt_ping (s0 : Int → Prop) (a : Bool) (p : Bytes) (c : Conn) (h : CT s0 c) : DeadCT s0 (receivePingFrame a p) c := by
  unfold DeadCT receivePingFrame; ct_auto
theorem deadt_rst (s0 : Int → Prop) (sid code : Int) (c : Conn) (h : CT s0 c) : DeadCT s0 (receiveRstStreamFrame sid code) c := by
  unfold DeadCT receiveRstStreamFrame; ct_auto
theorem deadt_priority (s0 : Int → Prop) (sid : Int) (p : Prio) (c : Conn) (h : CT s0 c) : DeadCT s0 (receivePriorityFrame sid p) c := by
  unfold DeadCT receivePriorityFrame; ct_auto
theorem deadt_altsvc (s0 : Int → Prop) (sid : Int) (o f : Bytes) (c : Conn) (h : CT s0 c) : DeadCT s0 (receiveAltSvcFrame sid o f) c := by
  unfold DeadCT receiveAltSvcFrame; ct_auto
theorem deadt_cont (s0 : Int → Prop) (sid : Int) (c : Conn) (h : CT s0 c) : DeadCT s0 (receiveNakedContinuation sid) c := by
  unfold DeadCT receiveNakedContinuation; ct_auto
theorem deadt_headers (s0 : Int → Prop) (sid : Int) (b : Bytes) (es : Bool) (pr : Option Prio) (c : Conn) (h : CT s0 c) :
    DeadCT s0 (receiveHeadersFrame sid b es pr) c := by
  unfold DeadCT receiveHeadersFrame receiveHeadersRest openInboundStreams; ct_auto
theorem deadt_push (s0 : Int → Prop) (sid p : Int) (b : Bytes) (c : Conn) (h : CT s0 c) : DeadCT s0 (receivePushPromiseFrame sid p b) c := by
  unfold DeadCT receivePushPromiseFrame; ct_auto

theorem of_deadt {s0 : (Int → Prop)} {m : CM FE} {c : Conn} (h : DeadCT s0 m c) :
    wp m (fun fe c' => fe.1 = [] ∧ CT s0 c') (fun _ c' => CT s0 c') c :=
  wp_mono h (fun _ _ hf => hf.elim) (fun _ _ h' => h')

/-- on a closed connection a handler either dies having written nothing, or (GOAWAY, unknown frame types) returns no frames -/
theorem closedt_dispatch (s0 : (Int → Prop)) (rf : RFrame) (c : Conn) (h : CT s0 c) :
    wp (dispatch rf) (fun fe c' => fe.1 = [] ∧ CT s0 c') (fun _ c' => CT s0 c') c := by
  unfold dispatch
  split
  · exact of_deadt (deadt_headers s0 _ _ _ _ c h)
  · exact of_deadt (deadt_push s0 _ _ _ c h)
  · exact of_deadt (deadt_settings s0 _ _ c h)
  · exact of_deadt (deadt_data s0 _ _ _ _ c h)
  · exact of_deadt (deadt_windowUpdate s0 _ _ c h)
  · exact of_deadt (deadt_ping s0 _ _ c h)
  · exact of_deadt (deadt_rst s0 _ _ c h)
  · exact of_deadt (deadt_priority s0 _ _ c h)
  · unfold receiveGoawayFrame clearOutboundDataBuffer
    wps
    apply ct_connInput_goaway _ _ h (by decide)
    intro c1 h1
    wps
    exact ⟨trivial, h1⟩
  · exact of_deadt (deadt_cont s0 _ c h)
  · exact of_deadt (deadt_altsvc s0 _ _ _ c h)
  · wps; exact ⟨trivial, h⟩

/-- the `except` clauses of `_receive_frame` on a closed connection: the RST_STREAM they would send is refused by the
    connection state machine -/
theorem closedt_frameErrorHandler (s0 : (Int → Prop)) (e : Exc) (c : Conn) (h : CT s0 c) :
    wp (frameErrorHandler e) (fun _ c' => CT s0 c') (fun _ c' => CT s0 c') c := by
  unfold frameErrorHandler
  cases e with
  | py k => exact h
  | h2 cls code esid evs =>
    simp only
    split
    · wps
      split
      · try wps
        apply ct_connInput_dead _ _ h (by decide)
        intro _ _ h'; exact h'
      · exact h
    · wps
      split
      · try wps
        apply ct_connInput_dead _ _ h (by decide)
        intro _ _ h'; exact h'
      · split <;> exact h

/-- **`_receive_frame` on a closed connection writes nothing** -/
theorem closedt_receiveFrame (s0 : (Int → Prop)) (rf : RFrame) (c : Conn) (h : CT s0 c) :
    wp (receiveFrame rf) (fun _ c' => CT s0 c') (fun _ c' => CT s0 c') c := by
  unfold receiveFrame
  wps
  refine wp_mono (closedt_dispatch s0 rf c h) ?_ ?_
  · intro fe c1 h1
    obtain ⟨frames, events⟩ := fe
    obtain ⟨hf, hc1⟩ := h1
    simp only at hf
    subst hf
    try wps
    unfold prepareForSending
    wps
    simp only [List.isEmpty_nil, if_true]
    try wps
    exact hc1
  · intro e c1 h1
    split
    · try wps
      refine wp_mono (closedt_frameErrorHandler s0 e c1 h1) ?_ (fun _ _ h' => h')
      intro evs c2 h2; wps; exact h2
    · exact h1

/-! ### the loop and `receive_data` -/

theorem ct_setFb {s0 : (Int → Prop)} {c : Conn} (h : CT s0 c) (fb : FrameBuffer) : CT s0 { c with fb := fb } := h

theorem recvLoop_ct (s0 : (Int → Prop)) (fuel : Nat) (evs : List Event) (c : Conn) (h : CT s0 c) :
    CT s0 (recvLoop fuel evs c).2 := by
  induction fuel generalizing evs c with
  | zero => exact h
  | succ n ih =>
    rw [recvLoop_succ]
    cases hnx : FrameBuffer.next (c.fb.data.length + 1) c.fb with
    | mk r fb =>
      cases r with
      | error e => exact h
      | ok o =>
        cases o with
        | none => exact h
        | some rf =>
          simp only
          have h1 : CT s0 (hideFb (receiveFrame rf) { c with fb := fb }).2 :=
            hideFb_keeps (fun _ _ h' => h') (receiveFrame rf) { c with fb := fb } (closedt_receiveFrame s0 rf _ h)
          cases hm : hideFb (receiveFrame rf) { c with fb := fb } with
          | mk r2 c2 =>
            rw [hm] at h1
            cases r2 with
            | error e => exact h1
            | ok es => exact ih _ _ h1

theorem closedt_terminate (s0 : (Int → Prop)) (code : Int) (c : Conn) (h : CT s0 c) :
    wp (terminateConnection code) (fun _ c' => CT s0 c') (fun _ c' => CT s0 c') c := by
  unfold terminateConnection
  wps
  apply ct_connInput_goaway _ _ h (by decide)
  intro c1 h1
  have hhi : c1.highestIn = c1.highestIn := rfl
  unfold prepareForSending
  wps
  simp only [List.isEmpty_cons, Bool.false_eq_true, if_false]
  cases hser : List.mapM Frame.serialize? [Frame.goaway c.highestIn code []] with
  | none => simp only; wps; exact h1
  | some bs =>
    simp only
    wps
    have hq : CT s0 { c1 with out := c1.out ++ bs.foldl (· ++ ·) [], sent := c1.sent ++ [Frame.goaway c.highestIn code []] } := h1
    split <;> exact hq

theorem closedt_handleRecvError (s0 : (Int → Prop)) (e : Exc) (c : Conn) (h : CT s0 c) :
    wp (handleRecvError e) (fun _ c' => CT s0 c') (fun _ c' => CT s0 c') c := by
  have hq : CT s0 c := h
  unfold handleRecvError
  split
  · wps
    refine wp_mono (closedt_terminate s0 _ c h) ?_ (fun _ _ h' => h')
    intro _ c1 h1; wps; exact h1
  · split
    · split
      · wps
        refine wp_mono (closedt_terminate s0 _ c h) ?_ (fun _ _ h' => h')
        intro _ c1 h1; wps; exact h1
      · exact hq
    · exact hq
  · exact hq

/-- **`receive_data` on a closed connection takes no new stream**: whatever the bytes, the connection stays closed and
    every stream id in the table afterwards was in the table before (streams may leave: counting the open streams
    cleans closed ones out) -/
theorem receiveData_closed_table (d : Bytes) (c : Conn) (hc : c.cstate = .CLOSED) :
    (receiveData d c).2.cstate = .CLOSED ∧
    ∀ e ∈ (receiveData d c).2.streams, ∃ e0 ∈ c.streams, e0.1 = e.1 := by
  show CT (fun sid => ∃ e0 ∈ c.streams, e0.1 = sid) (receiveData d c).2
  have h : CT (fun sid => ∃ e0 ∈ c.streams, e0.1 = sid) c := ⟨hc, fun e he => ⟨e, he, rfl⟩⟩
  unfold receiveData
  cases FrameBuffer.addData c.fb d with
  | error e => exact h
  | ok fb =>
    simp only
    have h1 := recvLoop_ct (fun sid => ∃ e0 ∈ c.streams, e0.1 = sid) (fb.data.length + 1) [] { c with fb := { fb with maxFrameSize := c.maxInFrame } } h
    cases hl : recvLoop (fb.data.length + 1) [] { c with fb := { fb with maxFrameSize := c.maxInFrame } } with
    | mk r c1 =>
      rw [hl] at h1
      cases r with
      | ok evs => exact h1
      | error e =>
        exact hideFb_keeps (P := CT (fun sid => ∃ e0 ∈ c.streams, e0.1 = sid)) (fun _ _ h' => h') (handleRecvError e) c1 (closedt_handleRecvError _ e _ h1)

end H2
