"""Line protocol shared by the real-h2 executor (real.py) and the Lean driver.

An op is a dict {'op': name, 'c': cid, ...args}.  `fmt_op` renders it as one
line; the Lean driver (lean/Main.lean) parses exactly this syntax.  Byte
strings are hex ('-' when empty is NOT used: empty is the empty string token
'.' so that None ('-') and b'' ('.') stay distinct).
"""


def hx(b):
    if b is None:
        return '-'
    if isinstance(b, str):
        b = b.encode('utf-8')
    b = bytes(b)
    return b.hex() if b else '.'


def unhx(t):
    if t == '-':
        return None
    if t == '.':
        return b''
    return bytes.fromhex(t)


def opt(v):
    if v is None:
        return '-'
    if v is True:
        return 'T'
    if v is False:
        return 'F'
    return str(v)


def fmt_hstr(x):
    """bytes -> b<hex>, str -> s<hex of utf-8>"""
    if isinstance(x, (bytes, bytearray, memoryview)):
        return 'b' + hx(bytes(x))
    if not isinstance(x, str):
        # not a string at all (an int, None, ...): nothing the model has a value for; corr.Runner never sends such a
        # call to the model (the history counts as unmodelled from there on), the line is only kept for the log
        return 'x' + hx(repr(x).encode('utf-8'))
    return 's' + hx(x.encode('utf-8'))


def fmt_headers(hs):
    """header list -> n:v:flag joined by ','; flag N = never-indexed, I = indexable
    '.' for the empty list"""
    if hs is None:
        return '-'
    out = []
    for h in hs:
        ni = (getattr(h, 'indexable', True) is False) or (type(h) is tuple and len(h) > 2 and bool(h[2]))
        out.append('%s:%s:%s' % (fmt_hstr(h[0]), fmt_hstr(h[1]), 'N' if ni else 'I'))
    return ','.join(out) if out else '.'


def fmt_settings(items):
    if not items:
        return '.'
    return ','.join('%d=%d' % (int(k), int(v)) for k, v in items)


def fmt_op(op):
    o = op['op']
    c = op.get('c', 0)
    if o == 'new':
        line = 'new %d %s vo=%d no=%d vi=%d ni=%d enc=%s' % (
            c, 'client' if op['client'] else 'server', op.get('vo', 1), op.get('no', 1),
            op.get('vi', 1), op.get('ni', 1), op.get('enc') or 'none')
        if op.get('ls'):
            # the application configured its own initial local settings (conn.local_settings = Settings(...))
            line += ' ls=' + fmt_settings(op['ls'])
        return line
    if o == 'initiate_connection':
        return 'call %d initiate_connection' % c
    if o == 'initiate_upgrade':
        return 'call %d initiate_upgrade %s' % (c, hx(op.get('settings_header')))
    if o == 'send_headers':
        return 'call %d send_headers %d %s %s %s %s %s' % (
            c, op['sid'], fmt_headers(op['headers']), opt(bool(op.get('es', False))),
            opt(op.get('pw')), opt(op.get('pd')), opt(op.get('pe')))
    if o == 'send_data':
        return 'call %d send_data %d %s %s %s' % (
            c, op['sid'], hx(op['data']), opt(bool(op.get('es', False))), opt(op.get('pad')))
    if o == 'end_stream':
        return 'call %d end_stream %d' % (c, op['sid'])
    if o == 'incr_window':
        return 'call %d incr_window %d %s' % (c, op['incr'], opt(op.get('sid')))
    if o == 'push_stream':
        return 'call %d push_stream %d %d %s' % (c, op['sid'], op['promised'], fmt_headers(op['headers']))
    if o == 'ping':
        return 'call %d ping %s' % (c, hx(op['data']))
    if o == 'reset_stream':
        return 'call %d reset_stream %d %d' % (c, op['sid'], op.get('code', 0))
    if o == 'close_connection':
        return 'call %d close_connection %d %s %s' % (
            c, op.get('code', 0), hx(op.get('extra')), opt(op.get('last')))
    if o == 'update_settings':
        return 'call %d update_settings %s' % (c, fmt_settings(op['settings']))
    if o == 'altsvc':
        return 'call %d altsvc %s %s %s' % (c, hx(op['field']), hx(op.get('origin')), opt(op.get('sid')))
    if o == 'prioritize':
        return 'call %d prioritize %d %s %s %s' % (
            c, op['sid'], opt(op.get('pw')), opt(op.get('pd')), opt(op.get('pe')))
    if o == 'ack_data':
        return 'call %d ack_data %d %d' % (c, op['size'], op['sid'])
    if o == 'data_to_send':
        return 'call %d data_to_send %s' % (c, opt(op.get('amount')))
    if o == 'clear_out':
        return 'call %d clear_out' % c
    if o == 'q':
        return 'q %d %s %s' % (c, op['what'], opt(op.get('sid')))
    if o == 'recv':
        return 'recv %d %s' % (c, hx(op['data']))
    if o == 'xfer':
        # move up to n bytes (None = all) of c's pending output into d's receive_data
        return 'xfer %d %d %s' % (c, op['to'], opt(op.get('n')))
    raise ValueError(o)
