/-
  C21, receive loop: `next` and `recvLoop` are stable under more input behind the buffered bytes.
-/
import H2.Proofs.Chunking
namespace H2
open H2.Gen H2.Conn
namespace FrameBuffer

theorem next_zero (fb : FrameBuffer) : next 0 fb = (.ok none, fb) := rfl

/-- `next` never changes the limit, never grows the buffer -/
theorem next_max (f : Nat) (fb : FrameBuffer) : (next f fb).2.maxFrameSize = fb.maxFrameSize := by
  induction f generalizing fb with
  | zero => rfl
  | succ n ih =>
    rw [next_succ]
    have h1 := next1_max fb
    cases hn : next1 fb with
    | mk r fb' =>
      rw [hn] at h1
      cases r with
      | error e => exact h1
      | ok o => cases o with
        | none => exact h1
        | frame f => exact h1
        | skip => simp only; rw [ih fb']; exact h1

theorem next_shrinks (f : Nat) (fb : FrameBuffer) (rf : RFrame) (fb' : FrameBuffer)
    (h : next f fb = (.ok (some rf), fb')) : fb'.data.length + 9 ≤ fb.data.length := by
  induction f generalizing fb with
  | zero => simp [next] at h
  | succ n ih =>
    rw [next_succ] at h
    have hs := next1_shrinks fb
    cases hn : next1 fb with
    | mk r fb1 =>
      rw [hn] at h hs
      cases r with
      | error e => simp at h
      | ok o => cases o with
        | none => simp at h
        | frame f => simp at h hs; obtain ⟨_, h2⟩ := h; subst h2; exact hs
        | skip => simp only at h hs; have := ih fb1 h; omega

theorem next_more_some (f : Nat) (fb : FrameBuffer) (x : Bytes) (r : Except Exc (Option RFrame)) (fb' : FrameBuffer)
    (h : next f fb = (r, fb')) (hr : r ≠ .ok none) (f2 : Nat) (h2 : (fb.data ++ x).length < 9 * f2) :
    next f2 (fb.more x) = (r, fb'.more x) := by
  induction f generalizing fb f2 with
  | zero => simp [next] at h; exact absurd h.1.symm hr
  | succ n ih =>
    cases f2 with
    | zero => omega
    | succ g =>
      rw [next_succ] at h
      rw [next_succ]
      have hm := next1_more fb x
      have hs := next1_shrinks fb
      cases hn : next1 fb with
      | mk r1 fb1 =>
        rw [hn] at h hm hs
        cases r1 with
        | error e => simp only at hm h; rw [hm]; simp only; injection h with h1 h2; subst h1 h2; rfl
        | ok o => cases o with
          | none => simp only at h; injection h with h1 _; exact absurd h1.symm hr
          | frame fr => simp only at hm h; rw [hm]; simp only; injection h with h1 h2; subst h1 h2; rfl
          | skip =>
            simp only at hm h hs; rw [hm]; simp only
            exact ih fb1 h g (by simp at h2 ⊢; omega)


theorem next_more_none (f : Nat) (fb : FrameBuffer) (x : Bytes) (fb' : FrameBuffer)
    (hf : fb.data.length < 9 * f) (h : next f fb = (.ok none, fb')) :
    (∀ f2 f3, (fb.data ++ x).length < 9 * f2 → (fb'.data ++ x).length < 9 * f3 →
      next f2 (fb.more x) = next f3 (fb'.more x)) ∧ fb'.data.length ≤ fb.data.length := by
  induction f generalizing fb with
  | zero => omega
  | succ n ih =>
    rw [next_succ] at h
    have hm := next1_more fb x
    have hs := next1_shrinks fb
    cases hn : next1 fb with
    | mk r1 fb1 =>
      rw [hn] at h hm hs
      cases r1 with
      | error e => simp at h
      | ok o => cases o with
        | none =>
          simp only at h; injection h with _ h2; subst h2
          have := next1_none_same fb fb1 hn; subst this
          exact ⟨fun f2 f3 h2 h3 => next_fuel f2 f3 _ h2 h3, Nat.le_refl _⟩
        | frame fr => simp at h
        | skip =>
          simp only at hm h hs
          have ⟨i1, i2⟩ := ih fb1 (by omega) h
          refine ⟨fun f2 f3 h2 h3 => ?_, by omega⟩
          cases f2 with
          | zero => omega
          | succ g =>
            rw [next_succ, hm]; simp only
            exact i1 g f3 (by simp at h2 ⊢; omega) h3

def setPre (fb : FrameBuffer) (p : Bytes) : FrameBuffer := { fb with preamble := p }

theorem next1_setPre (fb : FrameBuffer) (p : Bytes) :
    next1 (fb.setPre p) = ((next1 fb).1, (next1 fb).2.setPre p) := by
  unfold next1 updateHeaderBuffer setPre
  simp only
  by_cases h9 : fb.data.length < 9
  · simp [h9]
  · simp only [h9, if_false]
    cases hh : parseFrameHeader (fb.data.take 9) with
    | error e => rfl
    | ok h =>
      simp only
      by_cases hlen : fb.data.length < h.length + 9
      · simp [hlen]
      · simp only [hlen, if_false]
        by_cases hmax : (h.length : Int) > fb.maxFrameSize
        · simp [hmax]
        · simp only [hmax, if_false]
          by_cases hack : (h.type = 4 && hasBit h.flags 1 && h.length != 0) = true
          · simp [hack]
          · simp only [hack, if_false]
            cases hp : parseBody h ((fb.data.drop 9).take h.length) with
            | error e => cases e <;> rfl
            | ok f =>
              simp only [Bool.false_eq_true, if_false]
              cases hu : stepHeaderBuffer fb.headersBuffer f with
              | mk r hb2 =>
                cases r with
                | error e => rfl
                | ok o => cases o <;> rfl

theorem next_setPre (f : Nat) (fb : FrameBuffer) (p : Bytes) :
    next f (fb.setPre p) = ((next f fb).1, (next f fb).2.setPre p) := by
  induction f generalizing fb with
  | zero => rfl
  | succ n ih =>
    rw [next_succ, next_succ, next1_setPre]
    cases hn : next1 fb with
    | mk r fb1 =>
      cases r with
      | error e => rfl
      | ok o => cases o with
        | none => rfl
        | frame f => rfl
        | skip => simp only; exact ih fb1

end FrameBuffer

namespace Conn

def moreFb (c : Conn) (x : Bytes) : Conn := { c with fb := c.fb.more x }

theorem hideFb_setFb {α} (m : CM α) (c : Conn) (fb2 : FrameBuffer) :
    hideFb m { c with fb := fb2 } = ((hideFb m c).1, { (hideFb m c).2 with fb := fb2 }) := by
  unfold hideFb
  simp only

theorem hideFb_fb {α} (m : CM α) (c : Conn) : (hideFb m c).2.fb = c.fb := by
  unfold hideFb
  cases m { c with fb := {} } with
  | mk r c' => rfl

theorem recvLoop_succ (fuel : Nat) (evs : List Event) (c : Conn) :
    recvLoop (fuel + 1) evs c =
      (match FrameBuffer.next (c.fb.data.length + 1) c.fb with
       | (.error e, fb) => (.error e, { c with fb := fb })
       | (.ok none, fb) => (.ok evs, { c with fb := fb })
       | (.ok (some rf), fb) =>
         match hideFb (receiveFrame rf) { c with fb := fb } with
         | (.error e, c) => (.error e, c)
         | (.ok es, c) => recvLoop fuel (evs ++ es) { c with fb := { c.fb with maxFrameSize := c.maxInFrame } }) := rfl

/-- the fuel of the receive loop is irrelevant once it covers the buffered bytes -/
theorem recvLoop_fuel (f1 f2 : Nat) (evs : List Event) (c : Conn)
    (h1 : c.fb.data.length < 9 * f1) (h2 : c.fb.data.length < 9 * f2) : recvLoop f1 evs c = recvLoop f2 evs c := by
  induction f1 generalizing f2 evs c with
  | zero => omega
  | succ n ih =>
    cases f2 with
    | zero => omega
    | succ m =>
      rw [recvLoop_succ, recvLoop_succ]
      cases hn : FrameBuffer.next (c.fb.data.length + 1) c.fb with
      | mk r fb =>
        cases r with
        | error e => rfl
        | ok o => cases o with
          | none => rfl
          | some rf =>
            simp only
            have hs := FrameBuffer.next_shrinks _ _ _ _ hn
            have hfb := hideFb_fb (receiveFrame rf) { c with fb := fb }
            cases hh : hideFb (receiveFrame rf) { c with fb := fb } with
            | mk r2 c2 =>
              rw [hh] at hfb
              cases r2 with
              | error e => rfl
              | ok es =>
                simp only
                apply ih
                · simp only; rw [hfb]; simp only; omega
                · simp only; rw [hfb]; simp only; omega


theorem hideFb_more {α} (m : CM α) (c : Conn) (fb : FrameBuffer) (x : Bytes) :
    hideFb m { c.moreFb x with fb := fb.more x } =
      ((hideFb m { c with fb := fb }).1, (hideFb m { c with fb := fb }).2.moreFb x) := by
  unfold hideFb moreFb
  simp only

theorem recvLoop_more (fuel : Nat) (evs : List Event) (c : Conn) (x : Bytes) (hf : c.fb.data.length < 9 * fuel) :
    (∀ e c', recvLoop fuel evs c = (.error e, c') →
        ∀ f2, (c.fb.data ++ x).length < 9 * f2 → recvLoop f2 evs (c.moreFb x) = (.error e, c'.moreFb x)) ∧
    (∀ evs' c', recvLoop fuel evs c = (.ok evs', c') →
        (∀ f2 f3, (c.fb.data ++ x).length < 9 * f2 → (c'.fb.data ++ x).length < 9 * f3 →
            recvLoop f2 evs (c.moreFb x) = recvLoop f3 evs' (c'.moreFb x)) ∧
        (c.fb.maxFrameSize = c.maxInFrame → c'.fb.maxFrameSize = c'.maxInFrame) ∧
        c'.fb.data.length ≤ c.fb.data.length) := by
  induction fuel generalizing evs c with
  | zero => omega
  | succ n ih =>
    rw [recvLoop_succ]
    cases hn : FrameBuffer.next (c.fb.data.length + 1) c.fb with
    | mk r fb =>
      have hmax := FrameBuffer.next_max (c.fb.data.length + 1) c.fb
      rw [hn] at hmax
      simp only at hmax
      cases r with
      | error e =>
        simp only
        refine ⟨?_, by intro _ _ h; simp at h⟩
        intro e' c' h f2 h2
        injection h with h1 h3; injection h1 with h1; subst h1 h3
        cases f2 with
        | zero => omega
        | succ g =>
          rw [recvLoop_succ]
          have := FrameBuffer.next_more_some _ _ x _ _ hn (by simp) ((c.moreFb x).fb.data.length + 1)
            (by simp [moreFb]; omega)
          simp only [moreFb, FrameBuffer.more_data] at this ⊢
          rw [this]
      | ok o =>
        cases o with
        | none =>
          simp only
          refine ⟨by intro _ _ h; simp at h, ?_⟩
          intro evs' c' h
          injection h with h1 h3; injection h1 with h1; subst h1 h3
          have ⟨k1, k2⟩ := FrameBuffer.next_more_none _ _ x _ (by omega) hn
          refine ⟨?_, fun h => by simp only; rw [hmax]; exact h, k2⟩
          intro f2 f3 h2 h3
          cases f2 with
          | zero => omega
          | succ g =>
            cases f3 with
            | zero => omega
            | succ k =>
              rw [recvLoop_succ, recvLoop_succ]
              have e1 := k1 ((c.moreFb x).fb.data.length + 1) (({ c with fb := fb } : Conn).moreFb x).fb.data.length.succ
                (by simp [moreFb]; omega) (by simp [moreFb]; omega)
              simp only [moreFb, FrameBuffer.more_data] at e1 ⊢
              rw [e1]
              cases hq : FrameBuffer.next ((fb.data ++ x).length + 1) (fb.more x) with
              | mk r' fb'' =>
                cases r' with
                | error e => rfl
                | ok o' => cases o' with
                  | none => rfl
                  | some rf =>
                    simp only
                    have hs := FrameBuffer.next_shrinks _ _ _ _ hq
                    cases hh : hideFb (receiveFrame rf) { c with fb := fb'' } with
                    | mk r2 c2 =>
                      have hfb := hideFb_fb (receiveFrame rf) { c with fb := fb'' }
                      rw [hh] at hfb
                      cases r2 with
                      | error e => rfl
                      | ok es =>
                        simp only
                        apply recvLoop_fuel
                        · simp only; rw [hfb]; simp at hs h2 ⊢; omega
                        · simp only; rw [hfb]; simp at hs h3 ⊢; omega
        | some rf =>
          simp only
          have hs := FrameBuffer.next_shrinks _ _ _ _ hn
          have hmore := FrameBuffer.next_more_some _ _ x _ _ hn (by simp)
          cases hh : hideFb (receiveFrame rf) { c with fb := fb } with
          | mk r2 c2 =>
            have hfb := hideFb_fb (receiveFrame rf) { c with fb := fb }
            have hhm := hideFb_more (receiveFrame rf) c fb x
            rw [hh] at hfb hhm
            simp only at hfb hhm
            cases r2 with
            | error e =>
              simp only
              refine ⟨?_, by intro _ _ h; simp at h⟩
              intro e' c' h f2 h2
              injection h with h1 h3; injection h1 with h1; subst h1 h3
              cases f2 with
              | zero => omega
              | succ g =>
                rw [recvLoop_succ]
                have := hmore ((c.moreFb x).fb.data.length + 1) (by simp [moreFb]; omega)
                simp only [moreFb, FrameBuffer.more_data] at this hhm ⊢
                rw [this]; simp only; rw [hhm]
            | ok es =>
              simp only
              have hlen : ({ c2 with fb := { c2.fb with maxFrameSize := c2.maxInFrame } } : Conn).fb.data.length < 9 * n := by
                simp only; rw [hfb]; omega
              have ⟨i1, i2⟩ := ih (evs ++ es) { c2 with fb := { c2.fb with maxFrameSize := c2.maxInFrame } } hlen
              have step : ∀ g, (c.fb.data ++ x).length < 9 * (g + 1) →
                  recvLoop (g + 1) evs (c.moreFb x) =
                    recvLoop g (evs ++ es) (({ c2 with fb := { c2.fb with maxFrameSize := c2.maxInFrame } } : Conn).moreFb x) := by
                intro g h2
                rw [recvLoop_succ]
                have := hmore ((c.moreFb x).fb.data.length + 1) (by simp [moreFb]; omega)
                simp only [moreFb, FrameBuffer.more_data] at this hhm ⊢
                rw [this]; simp only; rw [hhm]; rfl
              constructor
              · intro e' c' h f2 h2
                cases f2 with
                | zero => omega
                | succ g =>
                  rw [step g h2]
                  apply i1 e' c' h g
                  simp only; rw [hfb]; simp at hs h2 ⊢; omega
              · intro evs' c' h
                have ⟨j1, j2, j3⟩ := i2 evs' c' h
                refine ⟨?_, fun _ => j2 rfl, ?_⟩
                · intro f2 f3 h2 h3
                  cases f2 with
                  | zero => omega
                  | succ g =>
                    rw [step g h2]
                    apply j1 g f3 _ h3
                    simp only; rw [hfb]; simp at hs h2 ⊢; omega
                · simp only at j3; rw [hfb] at j3; omega

end Conn
end H2
