#!/usr/bin/env python3
"""Run /repo's pinned test suite (guard off) and compare with /root/.vp/BASELINE.json stable_pass."""
import json, subprocess, sys, tempfile, os, xml.etree.ElementTree as ET
base = json.load(open('/root/.vp/BASELINE.json'))
want = set(base['stable_pass'])
fd, path = tempfile.mkstemp(suffix='.xml', dir='/var/tmp'); os.close(fd)
env = dict(os.environ); env.pop('H2_VERIF', None)
subprocess.run(['/venv/bin/python', '-m', 'pytest', '-q', '-p', 'no:cacheprovider', '--timeout=900',
                '--continue-on-collection-errors', '--junitxml=' + path], cwd='/repo', env=env,
               stdout=subprocess.DEVNULL, stderr=subprocess.DEVNULL)
passed = set()
for tc in ET.parse(path).getroot().iter('testcase'):
    if not any(ch.tag in ('failure', 'error', 'skipped') for ch in tc):
        cls = tc.get('classname'); name = tc.get('name')
        passed.add('%s::%s' % (cls, name))
os.unlink(path)
def norm(s): return s
missing = sorted(want - passed)
print('baseline stable_pass: %d, passed now: %d, missing: %d' % (len(want), len(passed), len(missing)))
for m in missing[:20]: print('  MISSING', m)
sys.exit(1 if missing else 0)
