/-
  C12 — SETTINGS values are validated with the RFC-mandated error codes.

  `validate_setting` and `guard_increment_window` are *regenerated* from
  settings.py / utilities.py on every run; the theorems below are statements
  over all of ℤ × ℤ, not samples.
-/
import H2.Model.Step
import H2.Props.C29

namespace H2.C12
open H2 H2.Gen H2.Conn

/-- RFC 7540 section 6.5.2 / RFC 8441 section 3, written from the RFC text -/
def rfcVerdict (id v : Int) : Int :=
  if id = 2 then (if v = 0 ∨ v = 1 then 0 else 1)                       -- ENABLE_PUSH: PROTOCOL_ERROR
  else if id = 4 then (if v ≤ 2147483647 then 0 else 3)                 -- INITIAL_WINDOW_SIZE: FLOW_CONTROL_ERROR
  else if id = 5 then (if 16384 ≤ v ∧ v ≤ 16777215 then 0 else 1)       -- MAX_FRAME_SIZE: PROTOCOL_ERROR
  else if id = 8 then (if v = 0 ∨ v = 1 then 0 else 1)                   -- ENABLE_CONNECT_PROTOCOL: PROTOCOL_ERROR
  else 0                                                                  -- everything else, known or unknown: accepted

/-- **C12**: for every identifier and every value that can appear on the wire (values are unsigned)
    the library's verdict is the RFC's. -/
theorem C12_validate (id v : Int) (hv : 0 ≤ v) : validate_setting id v = .ok (rfcVerdict id v) := by
  unfold validate_setting rfcVerdict
  by_cases h2 : id = 2 <;> by_cases h4 : id = 4 <;> by_cases h5 : id = 5 <;> by_cases h6 : id = 6 <;> by_cases h8 : id = 8 <;>
    simp_all <;> (try omega) <;> (repeat' split) <;> (try simp_all) <;> omega

/-- every in-range value and every unknown identifier is accepted -/
theorem C12_accepts (id v : Int) (hv : 0 ≤ v) (h : rfcVerdict id v = 0) (s : Settings) :
    ∃ s', Settings.setItem s id v = .ok s' := by
  unfold Settings.setItem
  rw [C12_validate id v hv, h]
  exact ⟨_, rfl⟩

/-- an out-of-range value is rejected with InvalidSettingsValueError carrying exactly the RFC code -/
theorem C12_rejects (id v : Int) (hv : 0 ≤ v) (h : rfcVerdict id v ≠ 0) (s : Settings) :
    Settings.setItem s id v = .error (.h2 .InvalidSettingsValueError (some (rfcVerdict id v)) none []) := by
  unfold Settings.setItem
  rw [C12_validate id v hv]
  simp [h]

/-- a whole received SETTINGS frame: the first out-of-range entry (in frame order) decides -/
def firstVerdict : List (Int × Int) → Int
  | [] => 0
  | (k, v) :: rest => if rfcVerdict k v ≠ 0 then rfcVerdict k v else firstVerdict rest

theorem C12_update (items : List (Int × Int)) (hv : ∀ kv ∈ items, 0 ≤ kv.2) (s : Settings) :
    (firstVerdict items = 0 → ∃ s', (Settings.update s items).1 = .ok s') ∧
    (firstVerdict items ≠ 0 →
      ∃ s', Settings.update s items = (.error (.h2 .InvalidSettingsValueError (some (firstVerdict items)) none []), s')) := by
  induction items generalizing s with
  | nil => simp [firstVerdict, Settings.update]
  | cons kv rest ih =>
    obtain ⟨k, v⟩ := kv
    have hv0 : 0 ≤ v := hv (k, v) (by simp)
    have hrest : ∀ kv ∈ rest, 0 ≤ kv.2 := fun kv h => hv kv (by simp [h])
    by_cases h : rfcVerdict k v = 0
    · obtain ⟨s1, hs1⟩ := C12_accepts k v hv0 h s
      simp only [firstVerdict, h, ne_eq, not_true_eq_false, if_false, Settings.update, hs1]
      exact ih hrest s1
    · simp only [firstVerdict, h, ne_eq, not_false_eq_true, if_true, Settings.update, C12_rejects k v hv0 h s]
      constructor
      · intro h'; simp_all
      · intro _; exact ⟨s, rfl⟩

/-- **C12, window overflow**: the generated `guard_increment_window` refuses exactly the sums above 2^31-1, so an
    INITIAL_WINDOW_SIZE delta (or WINDOW_UPDATE) that would push a window past it is a FlowControlError -/
theorem C12_guard (cur incr : Int) :
    guard_increment_window cur incr =
      (if cur + incr > 2147483647 then .error (.h2 .FlowControlError) else .ok (cur + incr)) := by
  unfold guard_increment_window
  simp only [decide_eq_true_eq]
  split <;> split <;> first | rfl | omega

/-- FlowControlError carries FLOW_CONTROL_ERROR (3): read off the generated exception table -/
theorem C12_flow_code : ExcClass.FlowControlError.classCode = some 3 := by decide

/-- local requests: `update_settings` pre-validates with the same verdicts (plus the wire range of the fields) -/
theorem C12_local (items : List (Int × Int)) (hr : ∀ kv ∈ items, 0 ≤ kv.1 ∧ kv.1 ≤ 65535 ∧ 0 ≤ kv.2 ∧ kv.2 ≤ 4294967295) :
    (firstVerdict items = 0 → validateSettingsList items = .ok ()) ∧
    (firstVerdict items ≠ 0 →
      validateSettingsList items = .error (.h2 .InvalidSettingsValueError (some (firstVerdict items)) none [])) := by
  induction items with
  | nil => simp [firstVerdict, validateSettingsList]
  | cons kv rest ih =>
    obtain ⟨k, v⟩ := kv
    have h0 := hr (k, v) (by simp)
    have hrest : ∀ kv ∈ rest, 0 ≤ kv.1 ∧ kv.1 ≤ 65535 ∧ 0 ≤ kv.2 ∧ kv.2 ≤ 4294967295 := fun kv h => hr kv (by simp [h])
    simp only [validateSettingsList, C12_validate k v h0.2.2.1, firstVerdict]
    by_cases h : rfcVerdict k v = 0
    · simp only [h, beq_self_eq_true, Bool.true_and, ne_eq, not_true_eq_false, if_false]
      have : (!(decide (0 ≤ k) && decide (k ≤ 65535) && decide (0 ≤ v) && decide (v ≤ 4294967295))) = false := by
        simp [h0.1, h0.2.1, h0.2.2.1, h0.2.2.2]
      simp only [this, Bool.false_eq_true, if_false, bne_self_eq_false]
      exact ih hrest
    · have hb : (rfcVerdict k v == 0) = false := by simp [h]
      simp only [hb, Bool.false_and, Bool.false_eq_true, if_false, ne_eq, h, not_false_eq_true, if_true]
      have : (rfcVerdict k v != 0) = true := by simp [h]
      simp only [this, if_true]
      constructor
      · intro h'; simp_all
      · intro _; trivial

/-! ### along every history -/

/-- every value a settings object holds — in force or waiting for its acknowledgement — passed `_validate_setting` -/
def AllValid (s : Settings) : Prop := ∀ e ∈ s, ∀ x ∈ e.2, validB e.1 x = true

theorem allValid_of_ok (s : Settings) (h : s.all entryOk = true) : AllValid s := by
  intro e he x hx
  have h1 := List.all_eq_true.mp h e he
  unfold entryOk at h1
  simp only [Bool.and_eq_true] at h1
  exact List.all_eq_true.mp h1.1.2 x hx

/-- **no invalid value is ever stored**: in every state reachable by any public calls and any received bytes, every
    value in the local and in the remote settings object (current or pending) is one `_validate_setting` accepts —
    `update_settings` and `_receive_settings_frame` check before they store, an initial value comes from the
    library's own defaults, and acknowledgement only moves values -/
theorem C12_stored_settings_valid_every_history (cfg : Config) (c : Conn) (h : C29.Reachable cfg c) :
    AllValid c.localSettings ∧ AllValid c.remoteSettings := by
  have hi := C29.C29_reachable_invariant cfg c h
  exact ⟨allValid_of_ok _ hi.1.1.1.ls.2.2, allValid_of_ok _ hi.1.1.1.rs.2.2⟩

/-- non-vacuity / boundary witnesses, evaluated in the kernel on the generated function -/
example : validate_setting 4 2147483647 = .ok 0 ∧ validate_setting 4 2147483648 = .ok 3 ∧
    validate_setting 5 16383 = .ok 1 ∧ validate_setting 5 16384 = .ok 0 ∧ validate_setting 5 16777215 = .ok 0 ∧
    validate_setting 5 16777216 = .ok 1 ∧ validate_setting 2 2 = .ok 1 ∧ validate_setting 8 2 = .ok 1 ∧
    validate_setting 65535 4294967295 = .ok 0 := by
  refine ⟨?_, ?_, ?_, ?_, ?_, ?_, ?_, ?_, ?_⟩ <;> rfl

end H2.C12
