"""Executes protocol ops on real h2.H2Connection objects (from /repo/src) and
returns canonical observations.  No behaviour of the system under test is
changed: the HPACK encoder/decoder are wrapped by pass-through taps (the
encoder tap tees the *lazy* header iterable, so partial consumption by a
failing pipeline is recorded, not prevented), and state is read only.
"""
import os
import sys

SRC = os.environ.get('H2_SRC', '/repo/src')
if SRC not in sys.path:
    sys.path.insert(0, SRC)

import h2  # noqa: E402
import h2.config  # noqa: E402
import h2.connection  # noqa: E402
import h2.events as EV  # noqa: E402
import h2.exceptions as EX  # noqa: E402
from hpack import HeaderTuple, NeverIndexedHeaderTuple  # noqa: E402

from proto import hx, fmt_headers, opt  # noqa: E402

assert os.path.realpath(h2.__file__).startswith(os.path.realpath(SRC)), (h2.__file__, SRC)


class EncTap(object):
    def __init__(self, enc):
        object.__setattr__(self, '_enc', enc)
        object.__setattr__(self, 'log', [])

    def encode(self, headers, huffman=True):
        rec = {'k': 'enc', 'fed': [], 'done': False, 'out': None}
        self.log.append(rec)

        def tee():
            for h in headers:
                rec['fed'].append(h)
                yield h
        out = self._enc.encode(tee(), huffman)
        rec['done'] = True
        rec['out'] = bytes(out)
        return out

    def __getattr__(self, k):
        return getattr(self._enc, k)

    def __setattr__(self, k, v):
        if k == 'header_table_size':
            self.log.append({'k': 'size', 'v': v})
        setattr(self._enc, k, v)


class DecTap(object):
    def __init__(self, dec):
        object.__setattr__(self, '_dec', dec)
        object.__setattr__(self, 'log', [])

    def decode(self, data, raw=False):
        rec = {'data': bytes(data), 'res': None}
        self.log.append(rec)
        try:
            r = self._dec.decode(data, raw=raw)
        except BaseException as e:
            rec['res'] = ('exc', e)
            raise
        r = list(r)
        rec['res'] = ('ok', r)
        return r

    def __getattr__(self, k):
        return getattr(self._dec, k)

    def __setattr__(self, k, v):
        setattr(self._dec, k, v)


def mk_headers(spec):
    """spec: list of (name, value, ni) with name/value bytes or str -> header objects"""
    out = []
    for n, v, ni in spec:
        out.append(NeverIndexedHeaderTuple(n, v) if ni else (n, v))
    return out


def _rel(e, attr, events):
    x = getattr(e, attr, None)
    if x is None:
        return '-'
    for i, y in enumerate(events):
        if y is x:
            return str(i)
    return 'ext'


def _code(c):
    return '-' if c is None else str(int(c))


def _changed(cs):
    return ','.join('%d=%s>%s' % (int(k), opt(v.original_value), opt(v.new_value)) for k, v in cs.items()) or '.'


def canon_event(e, events):
    k = type(e).__name__
    if isinstance(e, (EV.RequestReceived, EV.ResponseReceived, EV.TrailersReceived,
                      EV.InformationalResponseReceived)):
        return '%s(%s;%s;se=%s;pu=%s)' % (k, opt(e.stream_id), fmt_headers(e.headers),
                                         _rel(e, 'stream_ended', events), _rel(e, 'priority_updated', events))
    if isinstance(e, EV.DataReceived):
        return '%s(%s;%s;%s;se=%s)' % (k, opt(e.stream_id), hx(e.data), opt(e.flow_controlled_length),
                                      _rel(e, 'stream_ended', events))
    if isinstance(e, EV.WindowUpdated):
        return '%s(%s;%s)' % (k, opt(e.stream_id), opt(e.delta))
    if isinstance(e, (EV.RemoteSettingsChanged, EV.SettingsAcknowledged)):
        return '%s(%s)' % (k, _changed(e.changed_settings))
    if isinstance(e, (EV.PingReceived, EV.PingAckReceived)):
        return '%s(%s)' % (k, hx(e.ping_data))
    if isinstance(e, EV.StreamEnded):
        return '%s(%s)' % (k, opt(e.stream_id))
    if isinstance(e, EV.StreamReset):
        return '%s(%s;%s;%s)' % (k, opt(e.stream_id), _code(e.error_code), opt(e.remote_reset))
    if isinstance(e, EV.PushedStreamReceived):
        return '%s(%s;%s;%s)' % (k, opt(e.pushed_stream_id), opt(e.parent_stream_id), fmt_headers(e.headers))
    if isinstance(e, EV.PriorityUpdated):
        return '%s(%s;%s;%s;%s)' % (k, opt(e.stream_id), opt(e.weight), opt(e.depends_on), opt(e.exclusive))
    if isinstance(e, EV.ConnectionTerminated):
        return '%s(%s;%s;%s)' % (k, _code(e.error_code), opt(e.last_stream_id), hx(e.additional_data))
    if isinstance(e, EV.AlternativeServiceAvailable):
        return '%s(%s;%s)' % (k, hx(e.origin), hx(e.field_value))
    if isinstance(e, EV.UnknownFrameReceived):
        f = e.frame
        return '%s(%s;%s;%s;%s)' % (k, opt(f.type), opt(f.flag_byte), opt(f.stream_id), hx(f.body))
    return '%s(?)' % k


H2_EXC = {c for c in vars(EX).values() if isinstance(c, type) and issubclass(c, Exception)}


def canon_exc(e):
    if type(e) in H2_EXC:
        code = getattr(e, 'error_code', None)
        sid = getattr(e, 'stream_id', None)
        return 'exc %s %s %s' % (type(e).__name__, _code(code), opt(sid))
    return 'py %s' % type(e).__name__


class RealConn(object):
    def __init__(self, op):
        cfg = h2.config.H2Configuration(
            client_side=bool(op['client']),
            header_encoding=(op.get('enc') or None),
            validate_outbound_headers=bool(op.get('vo', 1)),
            normalize_outbound_headers=bool(op.get('no', 1)),
            validate_inbound_headers=bool(op.get('vi', 1)),
            normalize_inbound_headers=bool(op.get('ni', 1)))
        self.conn = h2.connection.H2Connection(config=cfg)
        if op.get('ls'):
            from h2.settings import Settings
            self.conn.local_settings = Settings(client=bool(op['client']), initial_values=dict(op['ls']))
        self.enc = EncTap(self.conn.encoder)
        self.dec = DecTap(self.conn.decoder)
        self.conn.encoder = self.enc
        self.conn.decoder = self.dec
        self.client = bool(op['client'])
        self.trace = []          # (op, obs) history, for the oracles
        # how often the library emptied its own output buffer (a received GOAWAY does): a buffer that is emptied and
        # refilled with the same bytes looks untouched from outside
        self.clears = 0
        orig_clear = self.conn.clear_outbound_data_buffer

        def tap_clear():
            self.clears += 1
            return orig_clear()
        self.conn.clear_outbound_data_buffer = tap_clear

    # -- read-only peeks ---------------------------------------------------
    def outbuf(self):
        return bytes(self.conn._data_to_send)

    def peek(self):
        c = self.conn
        wm = getattr(c, '_inbound_flow_control_window_manager', None)
        return 'st=%d,%d,%s,%d,%d,%d,%s,%s,%d,%d,%d,%d,%s' % (
            len(c.streams), len(getattr(c, '_closed_streams', ())), c.state_machine.state.name,
            c.highest_inbound_stream_id, c.highest_outbound_stream_id,
            c.outbound_flow_control_window,
            opt(getattr(wm, 'current_window_size', None)), opt(getattr(wm, 'max_window_size', None)),
            c.max_outbound_frame_size, c.max_inbound_frame_size,
            len(c.incoming_buffer.data), len(c.incoming_buffer._headers_buffer),
            opt(getattr(wm, '_bytes_processed', None))) + ' | ss=' + self.peek_streams()

    def peek_streams(self):
        """per stream (dict order): sid:state:closed_by:out_win:in_win:in_max:flags:expected_len:actual_len:in_processed"""
        out = []
        try:
            for sid, st in self.conn.streams.items():
                sm = st.state_machine
                wm = st._inbound_window_manager
                fl = ''.join('1' if x else '0' for x in (sm.headers_sent, sm.trailers_sent, sm.headers_received, sm.trailers_received))
                fl += {True: 'T', False: 'F', None: '-'}[sm.client]
                out.append('%d:%s:%s:%d:%d:%d:%s:%s:%d:%d' % (
                    sid, sm.state.name, sm.stream_closed_by.name if sm.stream_closed_by is not None else '-',
                    st.outbound_flow_control_window, wm.current_window_size, wm.max_window_size, fl,
                    opt(st._expected_content_length), st._actual_content_length, wm._bytes_processed))
        except AttributeError:
            return '?'
        return ';'.join(out) or '.'

    def snapshot(self):
        """read-only view of the state the oracles reason about"""
        c = self.conn
        streams = {}
        for sid, st in c.streams.items():
            sm = st.state_machine
            streams[sid] = (sm.state.name, sm.stream_closed_by.name if sm.stream_closed_by is not None else None,
                            st.outbound_flow_control_window, st.inbound_flow_control_window,
                            getattr(st._inbound_window_manager, 'max_window_size', None),
                            bool(sm.headers_sent), bool(sm.headers_received), bool(sm.trailers_sent),
                            bool(sm.trailers_received), sm.client)
        wm = c._inbound_flow_control_window_manager
        return {'state': c.state_machine.state.name, 'streams': streams,
                'out_win': c.outbound_flow_control_window, 'in_win': wm.current_window_size, 'in_max': wm.max_window_size,
                'in_processed': getattr(wm, '_bytes_processed', 0),
                'max_out': c.max_outbound_frame_size, 'max_in': c.max_inbound_frame_size,
                'hi_in': c.highest_inbound_stream_id, 'hi_out': c.highest_outbound_stream_id,
                'closed': dict((k, (v.name if v is not None else None)) for k, v in c._closed_streams.items()) if len(c._closed_streams) < 64 else None,
                'local': dict((int(k), list(v)) for k, v in c.local_settings._settings.items()),
                'remote': dict((int(k), list(v)) for k, v in c.remote_settings._settings.items()),
                'hdr_pending': bool(c.incoming_buffer._headers_buffer), 'hdr_backlog': len(c.incoming_buffer._headers_buffer)}

    # -- execution -----------------------------------------------------------
    def execute(self, op):
        c = self.conn
        o = op['op']
        before = self.outbuf()
        snap_before = self.snapshot()
        nenc = len(self.enc.log)
        ndec = len(self.dec.log)
        nclears = self.clears
        events = []
        try:
            val = self._call(op)
            if o in ('recv',):
                events = val
                res = 'ok -'
            elif val is None:
                res = 'ok -'
            elif isinstance(val, (bytes, bytearray)):
                res = 'ok ' + hx(bytes(val))
            else:
                res = 'ok %d' % int(val)
        except BaseException as e:  # noqa
            if isinstance(e, (KeyboardInterrupt, SystemExit, MemoryError)):
                raise
            res = canon_exc(e)
            exc = e
        else:
            exc = None
        after = self.outbuf()
        if o == 'data_to_send' or o == 'clear_out':
            outs = '~'                      # output buffer consumed by the op itself: not compared as "appended"
        elif after.startswith(before):
            outs = '+' + hx(after[len(before):])
        else:
            outs = '=' + hx(after)
        enc_recs = self.enc.log[nenc:]
        dec_recs = self.dec.log[ndec:]
        obs = {
            'res': res,
            'events': [canon_event(e, events) for e in events],
            'out': outs,
            'enc': [self._fmt_enc(r) for r in enc_recs],
            'peek': self.peek(),
            # raw material (not printed): for oracles and for the model's HPACK oracle annex
            'raw_events': events, 'exc': exc, 'appended': after[len(before):] if after.startswith(before) and self.clears == nclears else None,
            'outbuf': after, 'enc_recs': enc_recs, 'dec_recs': dec_recs,
            'snap_before': snap_before, 'snap_after': self.snapshot(), 'outbuf_before': before,
        }
        self.trace.append((op, obs))
        return obs

    @staticmethod
    def _fmt_enc(r):
        if r['k'] == 'size':
            return 'S%d' % r['v']
        return 'E%s[%s]' % ('c' if r['done'] else 'p', fmt_headers(r['fed']))

    def annex(self, obs):
        """HPACK oracle annex handed to the model: encoder outputs and decoder results of this op"""
        es = [hx(r['out']) for r in obs['enc_recs'] if r['k'] == 'enc' and r['done']]
        ds = []
        for r in obs['dec_recs']:
            kind, v = r['res']
            if kind == 'ok':
                ds.append('ok/' + fmt_headers(v))
            else:
                ds.append(self._dec_exc(v))
        return ' | E %d%s | D %d%s' % (len(es), ''.join(' ' + x for x in es), len(ds), ''.join(' ' + x for x in ds))

    @staticmethod
    def _dec_exc(e):
        from hpack.exceptions import HPACKError, OversizedHeaderListError
        if isinstance(e, OversizedHeaderListError):
            return 'oversized'
        if isinstance(e, (HPACKError, IndexError, TypeError, UnicodeDecodeError)):
            return 'hpack'
        return 'py/' + type(e).__name__

    def _call(self, op):
        c = self.conn
        o = op['op']
        if o == 'initiate_connection':
            return c.initiate_connection()
        if o == 'initiate_upgrade':
            return c.initiate_upgrade_connection(op.get('settings_header'))
        if o == 'send_headers':
            return c.send_headers(op['sid'], mk_headers(op['headers']), end_stream=bool(op.get('es', False)),
                                  priority_weight=op.get('pw'), priority_depends_on=op.get('pd'),
                                  priority_exclusive=op.get('pe'))
        if o == 'send_data':
            return c.send_data(op['sid'], op['data'], end_stream=bool(op.get('es', False)),
                               pad_length=op.get('pad'))
        if o == 'end_stream':
            return c.end_stream(op['sid'])
        if o == 'incr_window':
            return c.increment_flow_control_window(op['incr'], stream_id=op.get('sid'))
        if o == 'push_stream':
            return c.push_stream(op['sid'], op['promised'], mk_headers(op['headers']))
        if o == 'ping':
            return c.ping(op['data'])
        if o == 'reset_stream':
            return c.reset_stream(op['sid'], error_code=op.get('code', 0))
        if o == 'close_connection':
            return c.close_connection(error_code=op.get('code', 0), additional_data=op.get('extra'),
                                      last_stream_id=op.get('last'))
        if o == 'update_settings':
            return c.update_settings(dict(op['settings']))
        if o == 'altsvc':
            return c.advertise_alternative_service(op['field'], origin=op.get('origin'), stream_id=op.get('sid'))
        if o == 'prioritize':
            return c.prioritize(op['sid'], weight=op.get('pw'), depends_on=op.get('pd'), exclusive=op.get('pe'))
        if o == 'ack_data':
            return c.acknowledge_received_data(op['size'], op['sid'])
        if o == 'data_to_send':
            return c.data_to_send(op.get('amount'))
        if o == 'clear_out':
            return c.clear_outbound_data_buffer()
        if o == 'recv':
            return c.receive_data(op['data'])
        if o == 'q':
            w = op['what']
            if w == 'local_window':
                return c.local_flow_control_window(op['sid'])
            if w == 'remote_window':
                return c.remote_flow_control_window(op['sid'])
            if w == 'next_stream_id':
                return c.get_next_available_stream_id()
            if w == 'open_out':
                return c.open_outbound_streams
            if w == 'open_in':
                return c.open_inbound_streams
            if w == 'inbound_window':
                return c.inbound_flow_control_window
            raise ValueError(w)
        raise ValueError(o)


def fmt_obs(obs):
    return '%s | ev %s | out %s | enc %s | %s' % (
        obs['res'], ' '.join(obs['events']) or '.', obs['out'], ' '.join(obs['enc']) or '.', obs['peek'])


class World(object):
    """A set of real connections addressed by cid; runs op dicts (incl. new / xfer)."""

    def __init__(self):
        self.conns = {}

    def run(self, op):
        """returns (line_for_model, obs_line, obs)"""
        from proto import fmt_op
        o = op['op']
        if o == 'new':
            self.conns[op['c']] = RealConn(op)
            return fmt_op(op), 'ok', None
        if o == 'xfer':
            src = self.conns[op['c']]
            n = op.get('n')
            data = src.conn.data_to_send(n)
            rop = {'op': 'recv', 'c': op['to'], 'data': data}
            # the model side performs the same transfer itself; data included for the oracles
            rc = self.conns[op['to']]
            obs = rc.execute(rop)
            obs['xfer_data'] = data
            return fmt_op(op) + rc.annex(obs), fmt_obs(obs), obs
        rc = self.conns[op['c']]
        obs = rc.execute(op)
        return fmt_op(op) + rc.annex(obs), fmt_obs(obs), obs
