/-
  C24 — alternative-service advertisements follow the RFC 7838 rules.
-/
import H2.Proofs.RecvEmits

namespace H2.C24
open H2 H2.Gen H2.Conn

/-! ### sending -/

/-- an advertisement names either an origin or a stream, never both, never neither: ValueError, nothing changes -/
theorem C24_origin_xor_stream (field : Bytes) (origin : Option Bytes) (sid : Option Int) (c : Conn)
    (h : (origin.isSome && sid.isSome) = true ∨ (origin.isNone && sid.isNone) = true) :
    advertiseAlternativeService field origin sid c = (.error (.py .ValueError), c) := by
  unfold advertiseAlternativeService
  rcases h with h | h
  · simp only [h, if_true]; rfl
  · have h2 : (origin.isSome && sid.isSome) = false := by
      cases origin <;> cases sid <;> simp_all
    simp only [h2, Bool.false_eq_true, if_false, h, if_true]; rfl

/-- only servers advertise: a client's call raises ProtocolError and changes nothing -/
theorem C24_only_servers (field : Bytes) (origin : Option Bytes) (sid : Option Int) (c : Conn)
    (hcl : c.cfg.client = true) (hx : (origin.isSome && sid.isSome) = false) (hy : (origin.isNone && sid.isNone) = false) :
    advertiseAlternativeService field origin sid c = (.error pErr, c) := by
  unfold advertiseAlternativeService
  simp only [hx, hy, Bool.false_eq_true, if_false, bind, M.bind, getS, hcl, if_true]; rfl

/-- a stream advertisement is allowed exactly on a server's stream (a received request or one it promised itself) that
    is not closed and whose response headers were not sent yet (decided over the generated stream table, all
    reachable shapes; HALF_CLOSED_LOCAL without sent headers exists only through known finding D17b) -/
def altSvcSendable (sh : Shape) : Bool :=
  sh.client == some false && !sh.headersSent &&
  (sh.state == .OPEN || sh.state == .HALF_CLOSED_REMOTE || sh.state == .RESERVED_LOCAL || sh.state == .HALF_CLOSED_LOCAL)

theorem C24_stream_window : ∀ sh, (!Good sh || (okStep sh .SEND_ALTERNATIVE_SERVICE == altSvcSendable sh)) = true :=
  forall_shape (by decide +kernel)

/-- and an accepted advertisement leaves the stream as it was -/
theorem C24_send_keeps_stream : ∀ sh, (!okStep sh .SEND_ALTERNATIVE_SERVICE ||
    ((stepShape sh .SEND_ALTERNATIVE_SERVICE).2 == sh)) = true := forall_shape (by decide +kernel)

/-- the frame that goes out: ALTSVC on stream 0 with the origin, or on the stream with an empty origin -/
theorem C24_stream_frame (field : Bytes) (st : Stream) (a : List Frame) (st' : Stream)
    (h : Stream.advertiseAltSvc field st = (.ok a, st')) : a = [Frame.altsvc st.sid [] field] := by
  unfold Stream.advertiseAltSvc at h
  simp only [bind, M.bind, getS, pure, M.pure] at h
  cases hp : processInput .SEND_ALTERNATIVE_SERVICE st with
  | mk r s1 =>
    rw [hp] at h
    cases r with
    | error e => simp at h
    | ok evs =>
      simp only at h
      injection h with h1 _
      injection h1 with h1
      rw [← h1]
      -- process_input never changes the stream id
      have : s1.sid = st.sid := by
        unfold processInput onSM zoom SM.process at hp
        simp only at hp
        cases hs : stepShape st.sm.sh .SEND_ALTERNATIVE_SERVICE with
        | mk pr sh =>
          rw [hs] at hp
          cases pr <;> simp at hp <;> (obtain ⟨_, h2⟩ := hp; rw [← h2]; rfl)
      rw [this]

/-! ### receiving -/

/-- what `recv_alt_svc` reports, on every reachable shape: an event exactly for a client's own request stream on
    which no response headers have arrived yet; the stream state never changes and nothing is ever raised except on
    streams the table has no row for -/
def altSvcReported (sh : Shape) : Bool := sh.client == some true && !sh.headersReceived
    && (sh.state == .OPEN || sh.state == .HALF_CLOSED_LOCAL || sh.state == .RESERVED_REMOTE || sh.state == .HALF_CLOSED_REMOTE)

theorem C24_recv_reports : ∀ sh, (!Good sh ||
    (match (stepShape sh .RECV_ALTERNATIVE_SERVICE).1 with
     | .ok [e] => e == .AlternativeServiceAvailable && altSvcReported sh
     | .ok [] => !altSvcReported sh
     | .ok _ => false
     | _ => true)) = true := forall_shape (by decide +kernel)

theorem C24_recv_keeps_state : ∀ sh, (match stepShape sh .RECV_ALTERNATIVE_SERVICE with
     | (.ok _, sh') => sh' == sh
     | _ => true) = true := forall_shape (by decide +kernel)

/-- ALTSVC on stream 0: a client reports the origin given; an empty origin, and any ALTSVC at a server, is silently
    ignored (no event, no frame, no error) -/
theorem C24_recv_stream0 (origin field : Bytes) (c : Conn) (t : ConnectionState)
    (ht : connTable c.cstate .RECV_ALTERNATIVE_SERVICE = some t) :
    receiveAltSvcFrame 0 origin field c =
      (.ok ([], if origin.isEmpty || !c.cfg.client then [] else [Event.AlternativeServiceAvailable (some origin) (some field)]),
       { c with cstate := t }) := by
  unfold receiveAltSvcFrame
  simp only [bind, M.bind, connInput, ht, bne_self_eq_false, Bool.false_eq_true, if_false, getS, pure, M.pure]
  cases ho : origin.isEmpty <;> cases hc : c.cfg.client <;> simp [ho, hc, ite_app, M.pure, pure]

/-- ALTSVC on a stream carrying an origin (conflicting) is ignored without touching the stream -/
theorem C24_recv_conflicting_origin (origin field : Bytes) (st : Stream) (h : origin.isEmpty = false) :
    Stream.receiveAltSvc origin field st = (.ok ([], []), st) := by
  unfold Stream.receiveAltSvc
  simp [h, ite_app, pure, M.pure]

/-- the stream event carries the `:authority` of the client's own request -/
theorem C24_recv_authority (field : Bytes) (st : Stream) (fe : FE) (st' : Stream)
    (h : Stream.receiveAltSvc [] field st = (.ok fe, st')) :
    fe.1 = [] ∧ (fe.2 = [] ∨ fe.2 = [Event.AlternativeServiceAvailable st.authority (some field)]) := by
  unfold Stream.receiveAltSvc at h
  simp only [List.isEmpty_nil, Bool.not_true, Bool.false_eq_true, if_false, bind, M.bind, getS] at h
  cases hp : processInput .RECV_ALTERNATIVE_SERVICE st with
  | mk r s1 =>
    rw [hp] at h
    cases r with
    | error e => simp at h
    | ok evs =>
      simp only at h
      have hauth : s1.authority = st.authority := by
        unfold processInput onSM zoom SM.process at hp
        simp only at hp
        cases hs : stepShape st.sm.sh .RECV_ALTERNATIVE_SERVICE with
        | mk pr sh =>
          rw [hs] at hp
          cases pr <;> simp at hp <;> (obtain ⟨_, h2⟩ := hp; rw [← h2])
      cases evs with
      | nil => simp [pure, M.pure] at h; obtain ⟨h1, _⟩ := h; rw [← h1]; exact ⟨rfl, Or.inl rfl⟩
      | cons e rest =>
        simp only at h
        split at h
        · simp [raise] at h
        · simp only [pure, M.pure, Prod.mk.injEq, Except.ok.injEq] at h
          obtain ⟨h1, _⟩ := h
          rw [← h1, hauth]
          exact ⟨rfl, Or.inr rfl⟩

end H2.C24
