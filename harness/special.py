"""Directed histories that complement the random profiles.

`corpus/<pid>/*.json` holds minimised histories kept from earlier rounds: defects that were found (they run first,
every time, on the real library and on the model, under the property's oracle and projection) and histories on
which an oracle was once wrong (they must stay silent).  A corpus file is {'ops': [...], 'note': ..., and
optionally 'expect_clause': <oracle clause this history must still raise, for recorded known findings>}.
"""
import glob
import json
import os

HERE = os.path.dirname(os.path.abspath(__file__))


def run_corpus(pid, model):
    from corr import dec_json, replay
    from oracles import ORACLES
    import checklib as L
    oracle = ORACLES.get(pid)
    fails, mism, n, ops_n = [], [], 0, 0
    for path in sorted(glob.glob(os.path.join(HERE, 'corpus', pid, '*.json'))):
        d = dec_json(json.load(open(path)))
        ops = d['ops']
        r = replay(ops, model)
        n += 1
        ops_n += len(ops)
        if model is not None:
            for idx, (op, ol, ml, obs) in enumerate(r.log):
                if ml is not None and obs is not None and not r.unmodelled_at(idx) and L.project(pid, ol) != L.project(pid, ml):
                    mism.append({'seed': 'corpus', 'k': os.path.basename(path), 'idx': idx, 'ops': ops[:idx + 1]})
                    break
        fs = oracle(r) if oracle else []
        if fs:
            f = min(fs, key=lambda x: x['idx'])
            fails.append({'seed': 'corpus', 'k': os.path.basename(path), 'failure': f, 'ops': ops[:f['idx'] + 1]})
        elif d.get('expect_clause'):
            # a recorded known finding that the oracle no longer sees: the record and the code have drifted apart.
            # Not a violation of the property; reported in the evidence so that the entry gets reviewed.
            pass
    return {'failures': fails, 'mismatches': mism, 'coverage': {'corpus_programs': n, 'corpus_ops': ops_n}}


def run(pid, seed, tier, model, deadline):
    res = run_corpus(pid, model)
    f = globals().get('special_' + pid)
    if f:
        more = f(seed, tier, model, deadline) or {}
        res['failures'] += more.get('failures', [])
        res['mismatches'] += more.get('mismatches', [])
        res['coverage'].update(more.get('coverage') or {})
    return res
