/-
  Receive path, top: dispatch, `_receive_frame`, the frame iterator, the loop and `receive_data` keep the invariant
  and raise only protocol errors.
-/
import H2.Proofs.RecvHeaders
import H2.Proofs.RecvAppend
namespace H2
open H2.Gen H2.Conn

/-! ### dispatch, `_receive_frame`, the loop, `receive_data` -/

/-- what the frame buffer hands to the dispatcher: a PING payload has exactly 8 bytes, a WINDOW_UPDATE increment is
    at least 1 (hyperframe rejects the others when it parses the body) -/
def RFrameOk (rf : RFrame) : Prop :=
  (∀ a p, rf.frame = .ping a p → p.length = 8) ∧ (∀ sid n, rf.frame = .windowUpdate sid n → 1 ≤ n)

theorem hspec_dispatch (rf : RFrame) (c : Conn) (hwf : WF c) (hrf : RFrameOk rf) : wp (dispatch rf) HQ CE c := by
  unfold dispatch
  split
  · exact hspec_headers _ _ _ _ c hwf
  · exact hspec_pushPromise _ _ _ c hwf
  · exact hspec_settings _ _ c hwf
  · exact hspec_data _ _ _ _ c hwf
  · exact hspec_windowUpdate _ _ c hwf
  · rename_i ack payload heq; exact hspec_ping _ _ c hwf (hrf.1 _ _ heq)
  · exact hspec_rstStream _ _ c hwf
  · exact hspec_priority _ _ c hwf
  · exact hspec_goaway _ _ _ c hwf
  · exact hspec_nakedContinuation _ c hwf
  · exact hspec_altsvc _ _ _ c hwf
  · wps; exact ⟨hwf, framesOk_nil⟩

theorem wf_out {c : Conn} (h : WF c) (o : Bytes) (fs : List Frame) : WF { c with out := o, sent := fs } :=
  ⟨⟨h.1.ls, h.1.rs, h.1.mof, h.1.dec, h.1.ls32⟩, h.2⟩
theorem wfb_out {c : Conn} (h : WFb c) (o : Bytes) (fs : List Frame) : WFb { c with out := o, sent := fs } :=
  ⟨h.ls, h.rs, h.mof, h.dec, h.ls32⟩

theorem smallFrame_rst_closed (sid : Int) : SmallFrame (Frame.rstStream sid ErrorCodes.STREAM_CLOSED) := by
  show (0 : Int) ≤ 5 ∧ (5 : Int) < 4294967296
  omega

set_option maxRecDepth 4000 in
theorem hspec_frameErrorHandler (e : Exc) (c : Conn) (hwf : WF c) (hg : GoodExc e) :
    wp (frameErrorHandler e) (fun _ c' => WF c') (fun e' c' => GoodExc e' ∧ WFb c') c := by
  unfold frameErrorHandler
  cases e with
  | py k => exact hg.elim
  | h2 cls code esid evs =>
    simp only
    have hcode := goodExc_code hg
    split
    · wps
      split
      · apply wp_connInput_live _ _ hwf (by unfold notGoaway; decide)
        · intro t hl
          wps
          apply wp_prepareForSending _ _ hl.1.mof (framesOk_one (f := Frame.rstStream (esid.getD 0) (code.getD 0)) hcode)
          intro o; wps; exact wf_out hl.wf o _
        · intro h; exact ⟨goodExc_pErr, h.1⟩
      · exact ⟨hg, hwf.1⟩
    · wps
      split
      · apply wp_connInput_live _ _ hwf (by unfold notGoaway; decide)
        · intro t hl
          wps
          refine wp_prepareForSending _ _ hl.1.mof (framesOk_one (smallFrame_rst_closed _)) ?_
          intro o; wps; exact wf_out hl.wf o _
        · intro h; exact ⟨goodExc_pErr, h.1⟩
      · split
        · exact ⟨goodExc_streamClosed _ _, hwf.1⟩
        · exact ⟨hg, hwf.1⟩

theorem caught_of_pred {e : Exc}
    (h : (e.isInstance .StreamClosedError || e.isInstance .StreamIDTooLowError) = true) : isCaught e = true := by
  rw [Bool.or_eq_true] at h
  rcases h with h | h
  · exact caught_of_streamClosed h
  · unfold isCaught; rw [h]; simp

/-- `_receive_frame`: the invariant is kept; what escapes is a protocol error -/
theorem hspec_receiveFrame (rf : RFrame) (c : Conn) (hwf : WF c) (hrf : RFrameOk rf) :
    wp (receiveFrame rf) (fun _ c' => WF c') (fun e c' => GoodExc e ∧ WFb c') c := by
  unfold receiveFrame
  wps
  refine wp_mono (hspec_dispatch rf c hwf hrf) ?_ ?_
  · intro fe c' h
    obtain ⟨frames, events⟩ := fe
    wps
    apply wp_prepareForSending _ _ h.1.1.mof h.2
    intro o; wps; exact wf_out h.1 o _
  · intro e c' h
    split
    · rename_i hc
      have hwf' := h.2.2 (caught_of_pred hc)
      try wps
      refine wp_mono (hspec_frameErrorHandler e c' hwf' h.1) ?_ ?_
      · intro evs c2 h2; wps; exact h2
      · intro e2 c2 h2; exact h2
    · exact ⟨h.1, h.2.1⟩


/-! #### what the frame iterator yields -/

def NextErr (e : Exc) : Prop := GoodExc e ∨ e = .py (.Other "InvalidPaddingError")

theorem parseBody_ping (h : FrameHeader) (d : Bytes) (rf : RFrame) (hp : parseBody h d = .ok rf) :
    ∀ a p, rf.frame = .ping a p → p.length = 8 := by
  intro a p hf
  unfold parseBody at hp
  split at hp <;> (try simp only at hp) <;> (repeat' (split at hp)) <;> first
    | (simp at hp; done)
    | (injection hp with hp; subst hp; simp at hf; done)
    | (injection hp with hp; subst hp
       simp only [RFrame.mk.injEq, Frame.ping.injEq] at hf
       obtain ⟨_, h2⟩ := hf
       subst h2
       simp_all)

theorem parseBody_ok (h : FrameHeader) (d : Bytes) (rf : RFrame) (hp : parseBody h d = .ok rf) : RFrameOk rf := by
  refine ⟨?_, ?_⟩
  · exact parseBody_ping h d rf hp
  · intro sid n hf
    unfold parseBody at hp
    split at hp <;> (try simp only at hp) <;> (repeat' (split at hp)) <;> first
      | (simp at hp; done)
      | (injection hp with hp; subst hp; simp at hf; done)
      | (injection hp with hp; subst hp
         simp only [RFrame.mk.injEq, Frame.windowUpdate.injEq] at hf
         obtain ⟨_, h2⟩ := hf
         subst h2
         simp_all
         omega)


theorem plain_good {e : Exc} (h : Plain e) : GoodExc e := h.1

/-- the header-block backlog starts with the HEADERS / PUSH_PROMISE frame that opened the block -/
def HbOk (hb : List Frame) : Prop :=
  match hb with
  | [] => True
  | .headers .. :: _ => True
  | .pushPromise .. :: _ => True
  | _ => False

theorem stepHeaderBuffer_ok (hb : List Frame) (f : RFrame) (hf : RFrameOk f) (hh : HbOk hb) :
    (∀ g, (FrameBuffer.stepHeaderBuffer hb f).1 = .ok (some g) → RFrameOk g) ∧
    (∀ e, (FrameBuffer.stepHeaderBuffer hb f).1 = .error e → GoodExc e) ∧
    HbOk (FrameBuffer.stepHeaderBuffer hb f).2 := by
  unfold FrameBuffer.stepHeaderBuffer
  refine ⟨?_, ?_, ?_⟩
  · intro g hg
    repeat' split at hg
    all_goals (try simp only [apply_ite Prod.fst] at hg)
    all_goals (repeat' split at hg)
    all_goals first
      | (simp at hg; done)
      | (simp only [Except.ok.injEq, Option.some.injEq] at hg; subst hg; first | exact hf | (constructor <;> (intro a p hp; simp at hp; done)))
      | skip
    all_goals (rename_i first _ _ _ _ _ _ _ _ hno1 hno2 _; cases first <;> simp [HbOk] at hh <;> simp_all)
  · intro e he
    repeat' split at he
    all_goals (try simp only [apply_ite Prod.fst] at he)
    all_goals (repeat' split at he)
    all_goals first
      | (simp at he; done)
      | (injection he with he; subst he; exact goodExc_mkExc _ _ (by decide))
  · repeat' split
    all_goals (try simp only [apply_ite Prod.snd])
    all_goals (repeat' split)
    all_goals first
      | exact hh
      | trivial
      | (simp only [HbOk]; done)
      | (rename_i first _ _ _ _ _ _ _; cases first <;> simp_all [HbOk]; done)
      | (rename_i hfr; rw [hfr]; trivial)
      | (rename_i first tail _ _ _ _ _ _ _ _; cases first <;> simp_all [HbOk]; done)
      | (rename_i first tail _ _ _ _ _ _ _ _ _; cases first <;> simp_all [HbOk]; done)
      | skip


theorem next1_ok (fb : FrameBuffer) (hh : HbOk fb.headersBuffer) :
    (∀ rf fb', FrameBuffer.next1 fb = (.ok (.frame rf), fb') → RFrameOk rf) ∧
    (∀ e fb', FrameBuffer.next1 fb = (.error e, fb') → NextErr e) ∧
    HbOk (FrameBuffer.next1 fb).2.headersBuffer := by
  unfold FrameBuffer.next1 FrameBuffer.updateHeaderBuffer
  by_cases h9 : fb.data.length < 9
  · simp [h9]; exact hh
  · simp only [h9, if_false]
    cases hph : parseFrameHeader (fb.data.take 9) with
    | error e =>
      refine ⟨by intro _ _ h; simp at h, ?_, hh⟩
      intro e' fb' h; injection h with h _; injection h with h; subst h
      exact Or.inl (goodExc_mkExc _ _ (by decide))
    | ok h =>
      simp only
      by_cases hlen : fb.data.length < h.length + 9
      · simp [hlen]; exact hh
      · simp only [hlen, if_false]
        by_cases hmax : (h.length : Int) > fb.maxFrameSize
        · simp only [hmax, if_true]
          refine ⟨by intro _ _ h; simp at h, ?_, hh⟩
          intro e' fb' h; injection h with h _; injection h with h; subst h
          exact Or.inl (goodExc_mkExc _ _ (by decide))
        · simp only [hmax, if_false]
          by_cases hack : (h.type = 4 && hasBit h.flags 1 && h.length != 0) = true
          · simp only [hack, if_true]
            refine ⟨by intro _ _ h; simp at h, ?_, hh⟩
            intro e' fb' h; injection h with h _; injection h with h; subst h
            exact Or.inl (goodExc_mkExc _ _ (by decide))
          · simp only [hack]
            cases hp : parseBody h ((fb.data.drop 9).take h.length) with
            | error e =>
              cases e <;> simp only [Bool.false_eq_true, if_false]
              all_goals (
                refine ⟨by intro _ _ h; simp at h, ?_, hh⟩
                intro e' fb' h; injection h with h _; injection h with h; subst h)
              · exact Or.inl (goodExc_mkExc _ _ (by decide))
              · exact Or.inl (goodExc_mkExc _ _ (by decide))
              · exact Or.inr rfl
            | ok f =>
              simp only [Bool.false_eq_true, if_false]
              have hf := parseBody_ok _ _ _ hp
              have hs := stepHeaderBuffer_ok fb.headersBuffer f hf hh
              cases hu : FrameBuffer.stepHeaderBuffer fb.headersBuffer f with
              | mk r hb2 =>
                rw [hu] at hs
                cases r with
                | error e =>
                  refine ⟨by intro _ _ h; simp at h, ?_, hs.2.2⟩
                  intro e' fb' h; injection h with h _; injection h with h; subst h
                  exact Or.inl (hs.2.1 e rfl)
                | ok o =>
                  cases o with
                  | none => exact ⟨by intro _ _ h; simp at h, by intro _ _ h; simp at h, hs.2.2⟩
                  | some g =>
                    refine ⟨?_, by intro _ _ h; simp at h, hs.2.2⟩
                    intro rf fb' h
                    injection h with h _; injection h with h; injection h with h; subst h
                    exact hs.1 g rfl

theorem next_ok (fuel : Nat) (fb : FrameBuffer) (hh : HbOk fb.headersBuffer) :
    (∀ rf fb', FrameBuffer.next fuel fb = (.ok (some rf), fb') → RFrameOk rf) ∧
    (∀ e fb', FrameBuffer.next fuel fb = (.error e, fb') → NextErr e) ∧
    HbOk (FrameBuffer.next fuel fb).2.headersBuffer := by
  induction fuel generalizing fb with
  | zero => exact ⟨by intro _ _ h; simp [FrameBuffer.next] at h, by intro _ _ h; simp [FrameBuffer.next] at h, hh⟩
  | succ n ih =>
    rw [FrameBuffer.next_succ]
    have h1 := next1_ok fb hh
    cases hn : FrameBuffer.next1 fb with
    | mk r fb1 =>
      rw [hn] at h1
      cases r with
      | error e =>
        refine ⟨by intro _ _ h; simp at h, ?_, h1.2.2⟩
        intro e' fb' h; injection h with h _; injection h with h; subst h
        exact h1.2.1 e fb1 rfl
      | ok o =>
        cases o with
        | none => exact ⟨by intro _ _ h; simp at h, by intro _ _ h; simp at h, h1.2.2⟩
        | frame f =>
          refine ⟨?_, by intro _ _ h; simp at h, h1.2.2⟩
          intro rf fb' h
          injection h with h _; injection h with h; injection h with h; subst h
          exact h1.1 f fb1 rfl
        | skip => exact ih fb1 h1.2.2


theorem wf_setFb {c : Conn} (h : WF c) (fb : FrameBuffer) : WF { c with fb := fb } :=
  ⟨⟨h.1.ls, h.1.rs, h.1.mof, h.1.dec, h.1.ls32⟩, h.2⟩
theorem wfb_setFb {c : Conn} (h : WFb c) (fb : FrameBuffer) : WFb { c with fb := fb } := ⟨h.ls, h.rs, h.mof, h.dec, h.ls32⟩

/-- the loop of `receive_data`: the invariant is kept; what escapes is a protocol error (or hyperframe's padding
    error, which `receive_data` translates) -/
theorem recvLoop_ok (fuel : Nat) (evs : List Event) (c : Conn) (hwf : WF c) (hh : HbOk c.fb.headersBuffer) :
    match recvLoop fuel evs c with
    | (.ok _, c') => WF c' ∧ HbOk c'.fb.headersBuffer
    | (.error e, c') => NextErr e ∧ WFb c' ∧ HbOk c'.fb.headersBuffer := by
  induction fuel generalizing evs c with
  | zero => exact ⟨hwf, hh⟩
  | succ n ih =>
    rw [recvLoop_succ]
    have hn := next_ok (c.fb.data.length + 1) c.fb hh
    cases hnx : FrameBuffer.next (c.fb.data.length + 1) c.fb with
    | mk r fb =>
      rw [hnx] at hn
      cases r with
      | error e => exact ⟨hn.2.1 e fb rfl, wfb_setFb hwf.1 fb, hn.2.2⟩
      | ok o =>
        cases o with
        | none => exact ⟨wf_setFb hwf fb, hn.2.2⟩
        | some rf =>
          simp only
          have hrf := hn.1 rf fb rfl
          have hspec := hspec_receiveFrame rf { c with fb := {} } (wf_setFb hwf {}) hrf
          unfold wp at hspec
          have hsf := hideFb_setFb (receiveFrame rf) c fb
          have hfb := hideFb_fb (receiveFrame rf) { c with fb := fb }
          unfold hideFb at hsf hfb ⊢
          simp only at hsf hfb ⊢
          cases hm : receiveFrame rf { c with fb := {} } with
          | mk r2 c2 =>
            rw [hm] at hspec
            simp only [hm]
            cases r2 with
            | error e => exact ⟨Or.inl hspec.1, wfb_setFb hspec.2 fb, hn.2.2⟩
            | ok es =>
              simp only
              apply ih
              · exact wf_setFb hspec _
              · exact hn.2.2


theorem conn_goaway_closes (s : ConnectionState) : connTable s .SEND_GOAWAY = some .CLOSED := by
  cases s <;> rfl

/-- `_terminate_connection(code)` with a code that fits the frame: one GOAWAY is appended, the connection is closed -/
theorem wp_terminateConnection {Q : Unit → Conn → Prop} {E : Exc → Conn → Prop} (code : Int) (c : Conn) (hw : WFb c)
    (hc : 0 ≤ code ∧ code < 4294967296)
    (hq : ∀ c', WFb c' → c'.cstate = .CLOSED → Q () c') : wp (terminateConnection code) Q E c := by
  unfold terminateConnection
  wps
  unfold wp connInput
  rw [conn_goaway_closes]
  simp only
  have hw' : WFb { c with cstate := .CLOSED } := ⟨hw.ls, hw.rs, hw.mof, hw.dec, hw.ls32⟩
  have hser : ∀ f ∈ [Frame.goaway c.highestIn code []], (∃ b, f.serialize? = some b) ∧ f.bodyLen ≤ 16384 := by
    intro f hf
    simp only [List.mem_singleton] at hf
    subst hf
    obtain ⟨b, hb, hl⟩ := goaway_serialize c.highestIn code [] hc
    exact ⟨⟨b, hb⟩, by rw [hl]; simp⟩
  have := @wp_prepareForSending_ser Q E [Frame.goaway c.highestIn code []] { c with cstate := .CLOSED } hw'.mof
    hser (fun o => hq _ (wfb_out hw' o _) rfl)
  unfold wp at this
  exact this

theorem wf_of_closed {c : Conn} (h : WFb c) (hc : c.cstate = .CLOSED) : WF c := ⟨h, fun hn => absurd hc hn⟩

/-- the `except` clauses of `receive_data` -/
theorem handleRecvError_ok (e : Exc) (c : Conn) (he : NextErr e) (hw : WFb c) :
    wp (handleRecvError e) (fun _ _ => False) (fun e' c' => GoodExc e' ∧ WF c') c := by
  unfold handleRecvError
  rcases he with he | he
  · cases e with
    | py k => exact he.elim
    | h2 cls code sid evs =>
      obtain ⟨hsub, k, hk, h0, h1⟩ := he
      subst hk
      simp only [hsub, if_true]
      wps
      apply wp_terminateConnection _ _ hw ⟨h0, h1⟩
      intro c' hw' hc'
      wps
      exact ⟨⟨hsub, k, rfl, h0, h1⟩, wf_of_closed hw' hc'⟩
  · subst he
    simp only
    wps
    apply wp_terminateConnection _ _ hw ⟨by decide, by decide⟩
    intro c' hw' hc'
    wps
    exact ⟨goodExc_pErr, wf_of_closed hw' hc'⟩

/-- **`receive_data`**: from a state satisfying the invariant, whatever the bytes, it returns events or raises a
    ProtocolError (subclass) with a 32-bit error code, and the invariant holds again -/
theorem receiveData_ok (d : Bytes) (c : Conn) (hwf : WF c) (hh : HbOk c.fb.headersBuffer) :
    match receiveData d c with
    | (.ok _, c') => WF c' ∧ HbOk c'.fb.headersBuffer
    | (.error e, c') => GoodExc e ∧ WF c' ∧ HbOk c'.fb.headersBuffer := by
  rw [receiveData_eq]
  cases ha : FrameBuffer.addData c.fb d with
  | error e =>
    simp only
    rw [FrameBuffer.addData_error _ _ _ ha]
    exact ⟨goodExc_mkExc _ _ (by decide), hwf, hh⟩
  | ok fb =>
    simp only
    have hhb : fb.headersBuffer = c.fb.headersBuffer := by
      rw [FrameBuffer.addData_eq] at ha
      split at ha
      · injection ha with ha; subst ha; rfl
      · split at ha
        · injection ha with ha; subst ha; rfl
        · simp at ha
    have hl := recvLoop_ok ((startRecv c fb).fb.data.length + 1) [] (startRecv c fb)
      (wf_setFb hwf _) (by show HbOk fb.headersBuffer; rw [hhb]; exact hh)
    cases hr : recvLoop ((startRecv c fb).fb.data.length + 1) [] (startRecv c fb) with
    | mk r c1 =>
      rw [hr] at hl
      cases r with
      | ok evs => exact hl
      | error e =>
        simp only [finishRecv]
        have hspec := handleRecvError_ok e { c1 with fb := {} } hl.1 (wfb_setFb hl.2.1 {})
        unfold wp at hspec
        unfold hideFb
        cases hm : handleRecvError e { c1 with fb := {} } with
        | mk r2 c2 =>
          rw [hm] at hspec
          cases r2 with
          | ok u => exact hspec.elim
          | error e2 => exact ⟨hspec.1, wf_setFb hspec.2 _, hl.2.2⟩

end H2
