/-
  Lemmas for C19: on a CLOSED connection every frame-producing API call dies
  at (or before) its connection-state-machine input and leaves the output
  buffer alone.
-/
import H2.Proofs.Wp

namespace H2
open H2.Gen H2.Conn

/-- "closed and quiet": the connection is CLOSED and its output buffer is `o` -/
def CQ (o : Bytes) (c : Conn) : Prop := c.cstate = .CLOSED ∧ c.out = o

theorem wp_connInput_closed {Q : Unit → Conn → Prop} (o : Bytes) (i : ConnectionInputs) (c : Conn) (hc : CQ o c)
    (hi : connTable .CLOSED i = none) :
    wp (connInput i) Q (fun _ c' => CQ o c') c := by
  obtain ⟨h1, h2⟩ := hc
  simp only [wp, connInput, h1, hi]
  exact ⟨rfl, h2⟩

/-- `_get_stream_by_id` never changes the state -/
theorem wp_getStreamById {Q : Unit → Conn → Prop} {E : Exc → Conn → Prop} (sid : Int) (c : Conn)
    (hq : Q () c) (he : ∀ e, E e c) : wp (getStreamById sid) Q E c := by
  simp only [getStreamById]
  wps
  repeat' split
  all_goals first | exact hq | exact he _

/-- `_open_streams` touches only `streams` and `closedStreams` -/
theorem wp_openStreams {Q : Int → Conn → Prop} {E : Exc → Conn → Prop} (r : Int) (c : Conn)
    (hq : ∀ n c', c'.cstate = c.cstate → c'.out = c.out → Q n c') : wp (openStreams r) Q E c := by
  simp only [wp, openStreams]
  exact hq _ _ rfl rfl

macro "closed_auto" : tactic => `(tactic|
  repeat' (first
    | assumption
    | (apply wp_connInput_closed _ _ _ (by assumption); decide)
    | (apply wp_getStreamById)
    | (apply wp_openStreams; intro n c' h1 h2;
       have hc' : CQ _ c' := ⟨h1.trans (by assumption : CQ _ _).1, h2.trans (by assumption : CQ _ _).2⟩)
    | (intro _)
    | wps
    | split))

abbrev DeadQuiet (o : Bytes) (m : CM Unit) (c : Conn) : Prop :=
  wp m (fun _ _ => False) (fun _ c' => CQ o c') c

theorem sendHeaders_closed (o : Bytes) sid hs es pw pd pe (c : Conn) (hc : CQ o c) :
    DeadQuiet o (sendHeaders sid hs es pw pd pe) c := by
  simp only [sendHeaders, sendHeadersTail, addPriority, openOutboundStreams]; closed_auto
theorem sendData_closed (o : Bytes) sid d es pad (c : Conn) (hc : CQ o c) :
    DeadQuiet o (sendData sid d es pad) c := by
  simp only [sendData, sendDataCore, localFlowControlWindow]; closed_auto
theorem endStream_closed (o : Bytes) sid (c : Conn) (hc : CQ o c) : DeadQuiet o (endStream sid) c := by
  simp only [endStream]; closed_auto
theorem incrementWindow_closed (o : Bytes) i sid (c : Conn) (hc : CQ o c) :
    DeadQuiet o (incrementFlowControlWindow i sid) c := by
  simp only [incrementFlowControlWindow]; closed_auto
theorem pushStream_closed (o : Bytes) a b hs (c : Conn) (hc : CQ o c) : DeadQuiet o (pushStream a b hs) c := by
  simp only [pushStream]; closed_auto
theorem ping_closed (o : Bytes) d (c : Conn) (hc : CQ o c) : DeadQuiet o (ping d) c := by
  simp only [ping]; closed_auto
theorem resetStream_closed (o : Bytes) sid code (c : Conn) (hc : CQ o c) : DeadQuiet o (resetStream sid code) c := by
  simp only [resetStream]; closed_auto
theorem updateSettings_closed (o : Bytes) items (c : Conn) (hc : CQ o c) : DeadQuiet o (updateSettings items) c := by
  simp only [updateSettings]; closed_auto
theorem altsvc_closed (o : Bytes) f og sid (c : Conn) (hc : CQ o c) :
    DeadQuiet o (advertiseAlternativeService f og sid) c := by
  simp only [advertiseAlternativeService]; closed_auto
theorem prioritize_closed (o : Bytes) sid w d e (c : Conn) (hc : CQ o c) : DeadQuiet o (prioritize sid w d e) c := by
  simp only [prioritize]; closed_auto

/-- `acknowledge_received_data` on a closed connection: returns (or rejects its arguments) without touching anything -/
theorem ackData_closed (o : Bytes) size sid (c : Conn) (hc : CQ o c) :
    wp (acknowledgeReceivedData size sid) (fun _ c' => c' = c) (fun _ c' => c' = c) c := by
  simp only [acknowledgeReceivedData]
  wps
  have h : c.cstate = ConnectionState.CLOSED := hc.1
  split
  · trivial
  split
  · trivial
  apply wp_getStreamById
  · wps; simp [h]
  · intro e; split
    · simp [h]
    · rfl

/-- connecting `wp` facts with the observable result of `step` -/
theorem runU_of_wp {m : CM Unit} {c : Conn} {Q : Unit → Conn → Prop} {E : Exc → Conn → Prop} (h : wp m Q E c) :
    ((runU m c).2.res.isOk = true → Q () (runU m c).1) ∧
    ((runU m c).2.res.isOk = false → ∃ e, E e (runU m c).1) := by
  unfold wp at h
  unfold runU
  cases hm : m c with
  | mk r c' =>
    cases r with
    | ok a => simp only [hm] at h; simp [resOf, Res.isOk]; exact h
    | error e =>
      simp only [hm] at h
      cases e <;> simp [resOf, Res.isOk] <;> exact ⟨_, h⟩

end H2
