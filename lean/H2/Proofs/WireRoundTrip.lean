/-
  The frames the library writes are read back as themselves: `parse_body (serialize_body f) = f` for every frame type
  as `_prepare_for_sending` emits it (HEADERS / PUSH_PROMISE without padding, DATA with or without).  Together with
  the header round trip (C02_header_roundtrip) this is the wire half of C01: whatever one endpoint's calls put into
  `data_to_send` reaches the other endpoint's frame handlers as the same frame objects.
  (PRIORITY: C23_roundtrip.  SETTINGS: C25_settings_roundtrip; identifiers above 255 are masked, known finding D39.)
-/
import H2.Proofs.Bytes
namespace H2

theorem pySlice_mid (a b z : Bytes) :
    pySlice (a ++ b ++ z) a.length (((a ++ b ++ z).length : Int) - z.length) = b := by
  unfold pySlice
  have h1 : ¬ (((a ++ b ++ z).length : Int) - z.length < 0) := by simp only [List.length_append]; omega
  simp only [h1, if_false]
  have h2 : (((a ++ b ++ z).length : Int) - z.length).toNat = (a ++ b).length := by
    simp only [List.length_append]; omega
  rw [h2]
  have ht : (a ++ b ++ z).take (a ++ b).length = a ++ b := List.take_left' rfl
  rw [ht]
  exact List.drop_left' rfl

theorem zeros_length (n : Nat) : (zeros (n : Int)).length = n := by simp [zeros]

theorem hasBit_flags (es eh pd pr : Bool) :
    let fl := (if es then 1 else 0) + (if eh then 4 else 0) + (if pd then 8 else 0) + (if pr then 32 else 0)
    hasBit fl 1 = es ∧ hasBit fl 4 = eh ∧ hasBit fl 8 = pd ∧ hasBit fl 32 = pr := by
  cases es <;> cases eh <;> cases pd <;> cases pr <;> decide

/-- DATA without padding -/
theorem data_roundtrip (sid : Nat) (payload : Bytes) (es : Bool) :
    (Frame.data sid payload es none).body? = some payload ∧
    parseBody { length := payload.length, type := 0, flags := (Frame.data sid payload es none).flagByte, sid := sid } payload
      = .ok { frame := .data sid payload es none, fcl := payload.length } := by
  constructor
  · simp [Frame.body?, zeros]
  · have hb := hasBit_flags es false false false
    simp only [Frame.flagByte, Option.isSome_none, Bool.false_eq_true, if_false, Nat.add_zero] at hb ⊢
    unfold parseBody
    simp only [hb.1, hb.2.2.1, Bool.false_and, Bool.false_eq_true, if_false, Nat.add_zero]
    have : pySlice payload 0 (payload.length : Int) = payload := by
      have := pySlice_mid [] payload []
      simpa using this
    simp [this]

/-- DATA with `pad` bytes of padding -/
theorem data_padded_roundtrip (sid : Nat) (payload : Bytes) (es : Bool) (pad : Nat) (hp : pad < 256) :
    (Frame.data sid payload es (some pad)).body? = some ([UInt8.ofNat pad] ++ payload ++ zeros pad) ∧
    parseBody { length := 1 + payload.length + pad, type := 0, flags := (Frame.data sid payload es (some (pad : Int))).flagByte, sid := sid }
        ([UInt8.ofNat pad] ++ payload ++ zeros pad)
      = .ok { frame := .data sid payload es (some pad), fcl := payload.length + (pad + 1) } := by
  constructor
  · simp [Frame.body?, u8?_nat pad hp]
  · have hb := hasBit_flags es false true false
    simp only [Frame.flagByte, Option.isSome_some, Bool.false_eq_true, if_false, if_true, Nat.add_zero] at hb ⊢
    unfold parseBody
    have hhead : (([UInt8.ofNat pad] ++ payload ++ zeros pad).headD 0).toNat = pad := by
      simp [u8_toNat_ofNat, Nat.mod_eq_of_lt hp]
    have hlen : ([UInt8.ofNat pad] ++ payload ++ zeros (pad : Int)).length = 1 + payload.length + pad := by
      simp [zeros_length]; omega
    have hsl : pySlice ([UInt8.ofNat pad] ++ payload ++ zeros pad) 1
        ((([UInt8.ofNat pad] ++ payload ++ zeros pad).length : Int) - pad) = payload := by
      have := pySlice_mid [UInt8.ofNat pad] payload (zeros pad)
      rw [zeros_length] at this
      exact this
    simp only [hb.1, hb.2.2.1, Bool.true_and, if_true, hhead, hsl]
    have hne : ([UInt8.ofNat pad] ++ payload ++ zeros (pad : Int)).isEmpty = false := by simp
    have hck : (pad != 0 && decide (pad ≥ ([UInt8.ofNat pad] ++ payload ++ zeros (pad : Int)).length)) = false := by
      rw [hlen]; simp; omega
    simp [hne, zeros_length]
    omega

/-- RST_STREAM -/
theorem rst_roundtrip (sid : Nat) (code : Nat) (hc : code < 4294967296) :
    (Frame.rstStream sid code).body? = some (be32 code) ∧
    parseBody { length := 4, type := 3, flags := 0, sid := sid } (be32 code) = .ok { frame := .rstStream sid code } := by
  constructor
  · simp [Frame.body?, u32?_nat code hc]
  · unfold parseBody
    simp [be32_length, rd32_be32 code hc]

/-- PING -/
theorem ping_roundtrip (ack : Bool) (payload : Bytes) (h : payload.length = 8) :
    (Frame.ping ack payload).body? = some payload ∧
    parseBody { length := 8, type := 6, flags := (Frame.ping ack payload).flagByte, sid := 0 } payload
      = .ok { frame := .ping ack payload } := by
  constructor
  · simp [Frame.body?, h, zeros]
  · unfold parseBody
    cases ack <;> simp [Frame.flagByte, h, hasBit]

/-- WINDOW_UPDATE -/
theorem windowUpdate_roundtrip (sid : Nat) (incr : Nat) (h1 : 1 ≤ incr) (h2 : incr ≤ 2147483647) :
    (Frame.windowUpdate sid incr).body? = some (be32 incr) ∧
    parseBody { length := 4, type := 8, flags := 0, sid := sid } (be32 incr) = .ok { frame := .windowUpdate sid incr } := by
  have hm : mask31 (incr : Int) = incr := by
    unfold mask31
    have : ((incr : Int) % 2147483648) = incr := Int.emod_eq_of_lt (by omega) (by omega)
    rw [this, Int.toNat_natCast]
  constructor
  · simp [Frame.body?, hm]
  · unfold parseBody
    have hr := rd32_be32 incr (by omega)
    simp only [be32_length, hr]
    simp
    omega

/-- GOAWAY -/
theorem goaway_roundtrip (last code : Nat) (extra : Bytes) (hl : last < 2147483648) (hc : code < 4294967296) :
    (Frame.goaway last code extra).body? = some (be32 last ++ be32 code ++ extra) ∧
    parseBody { length := 8 + extra.length, type := 7, flags := 0, sid := 0 } (be32 last ++ be32 code ++ extra)
      = .ok { frame := .goaway last code extra } := by
  have hm : mask31 (last : Int) = last := by
    unfold mask31
    have : ((last : Int) % 2147483648) = last := Int.emod_eq_of_lt (by omega) (by omega)
    rw [this, Int.toNat_natCast]
  constructor
  · simp [Frame.body?, hm, u32?_nat code hc]
  · unfold parseBody
    have h1 : (be32 last ++ be32 code ++ extra).take 4 = be32 last := by
      rw [List.append_assoc, List.take_left' (be32_length last)]
    have h2 : ((be32 last ++ be32 code ++ extra).drop 4).take 4 = be32 code := by
      rw [List.append_assoc, List.drop_left' (be32_length last), List.take_left' (be32_length code)]
    have h3 : (be32 last ++ be32 code ++ extra).drop 8 = extra := by
      have : (be32 last ++ be32 code).length = 8 := rfl
      rw [List.drop_left' this]
    have h4 : ¬ ((be32 last ++ be32 code ++ extra).length < 8) := by simp [be32_length]; omega
    simp only [h1, h2, h3, h4, if_false, rd32_be32 last (by omega), rd32_be32 code hc]

/-- CONTINUATION -/
theorem continuation_roundtrip (sid : Nat) (block : Bytes) (eh : Bool) :
    (Frame.continuation sid block eh).body? = some block ∧
    parseBody { length := block.length, type := 9, flags := (Frame.continuation sid block eh).flagByte, sid := sid } block
      = .ok { frame := .continuation sid block eh } := by
  constructor
  · rfl
  · unfold parseBody
    cases eh <;> simp [Frame.flagByte, hasBit]

/-- ALTSVC -/
theorem altsvc_roundtrip (sid : Nat) (origin field : Bytes) (ho : origin.length < 65536) :
    (Frame.altsvc sid origin field).body? = some (be16 origin.length ++ origin ++ field) ∧
    parseBody { length := 2 + origin.length + field.length, type := 10, flags := 0, sid := sid }
        (be16 origin.length ++ origin ++ field)
      = .ok { frame := .altsvc sid origin field } := by
  constructor
  · simp [Frame.body?, u16?_nat origin.length ho]
  · unfold parseBody
    have h1 : (be16 origin.length ++ origin ++ field).take 2 = be16 origin.length := by
      rw [List.append_assoc, List.take_left' (be16_length _)]
    have h2 : (be16 origin.length ++ origin ++ field).drop 2 = origin ++ field := by
      rw [List.append_assoc, List.drop_left' (be16_length _)]
    have h3 : (be16 origin.length ++ origin ++ field).drop (2 + origin.length) = field := by
      have : (be16 origin.length ++ origin).length = 2 + origin.length := by simp [be16_length]
      rw [List.drop_left' this]
    have h0 : ¬ ((be16 origin.length ++ origin ++ field).length < 2) := by simp [be16_length]
    simp only [h0, if_false, h1, h2, h3, rd16_be16 _ ho]
    have h4 : ¬ ((origin ++ field).length < origin.length) := by simp
    simp only [h4, if_false, List.take_left' rfl]

/-- HEADERS without padding, with or without the priority fields -/
theorem headers_roundtrip (sid : Nat) (block : Bytes) (es eh : Bool) :
    (Frame.headers sid block es eh none none).body? = some block ∧
    parseBody { length := block.length, type := 1, flags := (Frame.headers sid block es eh none none).flagByte, sid := sid } block
      = .ok { frame := .headers sid block es eh none none } := by
  constructor
  · simp [Frame.body?, zeros]
  · have hb := hasBit_flags es eh false false
    simp only [Frame.flagByte, Option.isSome_none, Bool.false_eq_true, if_false, Nat.add_zero] at hb ⊢
    unfold parseBody
    have : pySlice block 0 (block.length : Int) = block := by
      have := pySlice_mid [] block []
      simpa using this
    simp [hb.1, hb.2.1, hb.2.2.1, hb.2.2.2, this]

theorem headers_prio_roundtrip (sid : Nat) (block : Bytes) (es eh : Bool) (w dep : Nat) (excl : Bool)
    (hw : w < 256) (hd : dep < 2147483648) :
    let p : Prio := { weight := w, dependsOn := dep, exclusive := excl }
    let pb := be32 (dep + (if excl then 2147483648 else 0)) ++ [UInt8.ofNat w]
    (Frame.headers sid block es eh none (some p)).body? = some (pb ++ block) ∧
    parseBody { length := 5 + block.length, type := 1, flags := (Frame.headers sid block es eh none (some p)).flagByte, sid := sid }
        (pb ++ block)
      = .ok { frame := .headers sid block es eh none (some p) } := by
  intro p pb
  let n : Nat := dep + (if excl then 2147483648 else 0)
  have hn : n < 4294967296 := by simp only [n]; split <;> omega
  have hcast : (p.dependsOn + (if p.exclusive then 2147483648 else 0) : Int) = (n : Int) := by
    simp only [p, n]; split <;> omega
  have hpb : prioBytes? p = some pb := by
    unfold prioBytes?
    rw [hcast, u32?_nat n hn]
    have h8 : u8? p.weight = some [UInt8.ofNat w] := u8?_nat w hw
    simp only [h8, bind, Option.bind, pure]
    rfl
  constructor
  · simp [Frame.body?, hpb, zeros]
  · have hb := hasBit_flags es eh false true
    simp only [Frame.flagByte, Option.isSome_none, Option.isSome_some, Bool.false_eq_true, if_false, if_true, Nat.add_zero] at hb ⊢
    unfold parseBody
    have hlen : (pb ++ block).length = 5 + block.length := by simp [pb, be32_length]; omega
    have h1 : (pb ++ block).take 4 = be32 n := by
      show ((be32 n ++ [UInt8.ofNat w]) ++ block).take 4 = _
      rw [List.append_assoc, List.take_left' (be32_length n)]
    have h2 : ((pb ++ block).drop 4).headD 0 = UInt8.ofNat w := by
      show (((be32 n ++ [UInt8.ofNat w]) ++ block).drop 4).headD 0 = _
      rw [List.append_assoc, List.drop_left' (be32_length n)]
      rfl
    have h3 : pySlice (pb ++ block) 5 (((pb ++ block).length : Int) - (0 : Nat)) = block := by
      have := pySlice_mid pb block []
      have hl : pb.length = 5 := rfl
      simpa [hl] using this
    have hdep : n % 2147483648 = dep ∧ (n / 2147483648 = 1) = (excl = true) := by
      simp only [n]; cases excl <;> simp <;> omega
    simp only [hb.1, hb.2.1, hb.2.2.1, hb.2.2.2, Bool.false_and, Bool.true_and, Bool.false_eq_true, if_false, if_true, h1, h2, h3,
      rd32_be32 n hn, u8_toNat_ofNat, Nat.mod_eq_of_lt hw, hdep.1]
    have hpl : pb.length = 5 := rfl
    have hmod : ((n : Int) % 2147483648) = (dep : Int) := by have := hdep.1; omega
    simp [hpl, hmod, hdep.2, p]

/-- PUSH_PROMISE without padding -/
theorem pushPromise_roundtrip (sid promised : Nat) (block : Bytes) (eh : Bool)
    (hp0 : promised ≠ 0) (hpe : promised % 2 = 0) (hp : promised < 2147483648) :
    (Frame.pushPromise sid promised block eh none).body? = some (be32 promised ++ block) ∧
    parseBody { length := 4 + block.length, type := 5, flags := (Frame.pushPromise sid promised block eh none).flagByte, sid := sid }
        (be32 promised ++ block)
      = .ok { frame := .pushPromise sid promised block eh none } := by
  constructor
  · simp [Frame.body?, u32?_nat promised (by omega), zeros]
  · have hb := hasBit_flags false eh false false
    simp only [Frame.flagByte, Option.isSome_none, Bool.false_eq_true, if_false, Nat.add_zero, Nat.zero_add] at hb ⊢
    unfold parseBody
    have h1 : ((be32 promised ++ block).drop 0).take 4 = be32 promised := by
      rw [List.drop_zero, List.take_left' (be32_length promised)]
    have h3 : pySlice (be32 promised ++ block) (0 + 4) (((be32 promised ++ block).length : Int) - (0 : Nat)) = block := by
      have := pySlice_mid (be32 promised) block []
      simpa [be32_length] using this
    have h4 : ¬ ((be32 promised ++ block).length < 0 + 4) := by simp [be32_length]
    simp only [hb.2.1, hb.2.2.1, Bool.false_and, Bool.false_eq_true, if_false, h1, h3, h4, rd32_be32 promised (by omega)]
    simp [hp0, hpe]

end H2
