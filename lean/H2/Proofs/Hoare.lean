/-
  A small Hoare logic for the state+exception monad `M σ α` of the model.
  `Tri P m Q E`: from a state satisfying `P`, `m` either returns `a` in a state
  satisfying `Q a`, or raises `e` in a state satisfying `E e`.
-/
import H2.Model.Step

namespace H2

def Tri {σ α : Type} (P : σ → Prop) (m : M σ α) (Q : α → σ → Prop) (E : Exc → σ → Prop) : Prop :=
  ∀ s, P s → match m s with
    | (.ok a, s') => Q a s'
    | (.error e, s') => E e s'

namespace Tri
variable {σ α β : Type} {P P' : σ → Prop} {Q Q' : α → σ → Prop} {E E' : Exc → σ → Prop}

theorem conseq {m : M σ α} (h : Tri P m Q E) (hp : ∀ s, P' s → P s) (hq : ∀ a s, Q a s → Q' a s)
    (he : ∀ e s, E e s → E' e s) : Tri P' m Q' E' := by
  intro s hs
  have := h s (hp s hs)
  split <;> rename_i heq <;> simp only [heq] at this
  · exact hq _ _ this
  · exact he _ _ this

theorem pre {m : M σ α} (h : Tri P m Q E) (hp : ∀ s, P' s → P s) : Tri P' m Q E :=
  conseq h hp (fun _ _ x => x) (fun _ _ x => x)

theorem post {m : M σ α} (h : Tri P m Q E) (hq : ∀ a s, Q a s → Q' a s) (he : ∀ e s, E e s → E' e s) : Tri P m Q' E' :=
  conseq h (fun _ x => x) hq he

theorem pure' (a : α) (h : ∀ s, P s → Q a s) : Tri P (pure a : M σ α) Q E := by
  intro s hs; exact h s hs

theorem raise' (e : Exc) (h : ∀ s, P s → E e s) : Tri P (raise e : M σ α) Q E := by
  intro s hs; exact h s hs

theorem bind' {m : M σ α} {k : α → M σ β} {R : α → σ → Prop} {Q : β → σ → Prop}
    (hm : Tri P m R E) (hk : ∀ a, Tri (R a) (k a) Q E) : Tri P (m >>= k) Q E := by
  intro s hs
  have h1 := hm s hs
  show match (M.bind m k) s with | (.ok a, s') => Q a s' | (.error e, s') => E e s'
  unfold M.bind
  cases hms : m s with
  | mk r s' =>
    cases r with
    | ok a => simp only [hms] at h1 ⊢; exact hk a s' h1
    | error e => simp only [hms] at h1 ⊢; exact h1

theorem getS' : Tri P (getS : M σ σ) (fun a s => a = s ∧ P s) E := by
  intro s hs; exact ⟨rfl, hs⟩

theorem modifyS' (f : σ → σ) {Q : Unit → σ → Prop} (h : ∀ s, P s → Q () (f s)) : Tri P (modifyS f) Q E := by
  intro s hs; exact h s hs

theorem setS' (t : σ) {Q : Unit → σ → Prop} (h : ∀ s, P s → Q () t) : Tri P (setS t) Q E := by
  intro s hs; exact h s hs

theorem liftExcept' (r : Except Exc α) (hok : ∀ a, r = .ok a → ∀ s, P s → Q a s)
    (herr : ∀ e, r = .error e → ∀ s, P s → E e s) : Tri P (liftExcept r : M σ α) Q E := by
  intro s hs
  cases r with
  | ok a => exact hok a rfl s hs
  | error e => exact herr e rfl s hs

theorem ite' {c : Prop} [Decidable c] {m1 m2 : M σ α}
    (h1 : c → Tri P m1 Q E) (h2 : ¬c → Tri P m2 Q E) : Tri P (if c then m1 else m2) Q E := by
  split
  · exact h1 ‹_›
  · exact h2 ‹_›

theorem tryCatch' {m : M σ α} {pred : Exc → Bool} {h : Exc → M σ α} {R : Exc → σ → Prop}
    (hm : Tri P m Q R) (hh : ∀ e, pred e = true → Tri (R e) (h e) Q E)
    (hpass : ∀ e s, pred e = false → R e s → E e s) : Tri P (tryCatch m pred h) Q E := by
  intro s hs
  have h1 := hm s hs
  unfold tryCatch
  cases hms : m s with
  | mk r s' =>
    cases r with
    | ok a => simp only [hms] at h1 ⊢; exact h1
    | error e =>
      simp only [hms] at h1 ⊢
      cases hp : pred e with
      | true => simp only [if_true]; exact hh e hp s' h1
      | false => simp only [Bool.false_eq_true, if_false]; exact hpass e s' hp h1

/-- a computation on a component -/
theorem zoom' {τ : Type} {get : σ → τ} {set : σ → τ → σ} {m : M τ α} {Pt : τ → Prop} {Qt : α → τ → Prop} {Et : Exc → τ → Prop}
    (hm : Tri Pt m Qt Et)
    (hp : ∀ s, P s → Pt (get s))
    (hq : ∀ s a t, P s → Qt a t → Q a (set s t))
    (he : ∀ s e t, P s → Et e t → E e (set s t)) : Tri P (zoom get set m) Q E := by
  intro s hs
  have h1 := hm (get s) (hp s hs)
  unfold zoom
  cases hms : m (get s) with
  | mk r t =>
    cases r with
    | ok a => simp only [hms] at h1 ⊢; exact hq s a t hs h1
    | error e => simp only [hms] at h1 ⊢; exact he s e t hs h1

end Tri

/-- frame property: `m` never changes `f` (on normal return or on raise) -/
def Frames {σ α τ : Type} (f : σ → τ) (m : M σ α) : Prop := ∀ s, f (m s).2 = f s

end H2
