/-
  C20 — frames racing a local stream reset never break the connection.

  Decided over the transition table regenerated from stream.py, plus the
  `_receive_frame` wrapper of the hand model, plus (`C20_forgotten_headers`) the path a HEADERS frame takes when
  the reset stream has already been cleaned out of the stream table.
-/
import H2.Proofs.Shapes
import H2.Proofs.Send
import H2.Proofs.StreamLemmas
import H2.Proofs.PairFsm
-- the stream machine seen from both ends: a stream we reset swallows whatever the peer still sends
-- @also H2.PairFsm.reset_swallows

namespace H2.C20
open H2 H2.Gen H2.Conn

theorem wp_eq_ok {σ α : Type} {Q : α → σ → Prop} {E : Exc → σ → Prop} (m : M σ α) (s s' : σ) (a : α)
    (h : m s = (.ok a, s')) : wp m Q E s = Q a s' := by
  unfold wp; rw [h]

/-- the inputs a peer's in-flight frames on that stream turn into -/
def racing : List StreamInputs :=
  [.RECV_HEADERS, .RECV_INFORMATIONAL_HEADERS, .RECV_DATA, .RECV_END_STREAM, .RECV_WINDOW_UPDATE, .RECV_RST_STREAM,
   .RECV_PUSH_PROMISE, .RECV_ALTERNATIVE_SERVICE]

def locallyReset (sh : Shape) : Bool := sh.state == .CLOSED && sh.closedBy == some .SEND_RST_STREAM

/-- a local reset from any live state leaves exactly that shape -/
theorem C20_reset_shape : ∀ sh, (!Good sh || sh.state == .IDLE || sh.state == .CLOSED ||
    (match (stepShape sh .SEND_RST_STREAM) with
     | (.ok _, sh') => locallyReset sh'
     | _ => false)) = true :=
  forall_shape (by decide +kernel)

/-- **C20 (stream machine)**: on a stream the application has reset, every frame the peer may still have in flight is
    either ignored or answered by the "stream closed" signal (which `_receive_frame` turns into RST_STREAM) — never
    a ProtocolError, never an event, and the stream stays as it is -/
theorem C20_racing_frames : ∀ sh i, (!Good sh || !locallyReset sh || !racing.contains i ||
    (match stepShape sh i with
     | (.ok evs, sh') => evs.isEmpty && sh' == sh
     | (.streamClosed withEvent, sh') => !withEvent && sh' == sh
     | (.proto, _) => false)) = true :=
  forall_shape_input (by decide +kernel)

/-- the wrapper (`_receive_frame`): a StreamClosedError for a stream that was closed by reset is answered with
    exactly one RST_STREAM(STREAM_CLOSED) on that stream and the exception's events (none, by the theorem above);
    nothing is raised and the connection goes on -/
theorem C20_wrapper (c1 : Conn) (sid : Int)
    (hr : closedByReset c1 sid = true) (hopen : c1.cstate = .CLIENT_OPEN ∨ c1.cstate = .SERVER_OPEN)
    (hmax : 4 ≤ c1.maxOutFrame) :
    ∃ b, (Frame.rstStream sid (streamClosedErrorCode : Int)).serialize? = some b ∧
    wp (frameErrorHandler (mkStreamClosed sid []))
      (fun evs c2 => evs = [] ∧ c2 = { c1 with out := c1.out ++ b, sent := c1.sent ++ [Frame.rstStream sid (streamClosedErrorCode : Int)] })
      (fun _ _ => False) c1 := by
  obtain ⟨b, hb, hlen⟩ := rst_serialize sid (streamClosedErrorCode : Int) (by decide)
  refine ⟨b, hb, ?_⟩
  have htab : connTable c1.cstate .SEND_RST_STREAM = some c1.cstate := by
    rcases hopen with h | h <;> simp [h, connTable]
  simp only [frameErrorHandler, mkStreamClosed]
  have hsub : ExcClass.isSub .StreamClosedError .StreamClosedError = true := by decide
  simp only [hsub, if_true, Option.getD, Int.ofNat_eq_natCast]
  wps
  simp only [hr, if_true]
  rw [wp_connInput_ok _ _ _ htab]
  wps
  rw [wp_prepare_eq [Frame.rstStream sid (streamClosedErrorCode : Int)] _ [b] (by simp) (by simp [hb])
    (by simp only [List.all_cons, List.all_nil, Bool.and_true, hlen, decide_eq_true_eq]; omega)]
  cases c1; simp

/-- `process_bytes` never raises (generated code; the full statement is C04_process_bytes) -/
theorem C04pb (w : WindowManager) (n : Int) :
    match w.process_bytes n with
    | (.ok _, _) => True
    | (.error _, _) => False := by
  unfold WindowManager.process_bytes WindowManager.maybe_update_window
  grind

/-- looking up a stream that is no longer in the table, at or below the high-water mark of its side: StreamClosedError
    (never NoSuchStreamError), nothing changed -/
theorem getStreamById_forgotten {Q : Unit → Conn → Prop} {E : Exc → Conn → Prop} (c : Conn) (sid : Int)
    (hno : hasStream c sid = false)
    (hold : sid ≤ (if streamIdIsOutbound c sid then c.highestOut else c.highestIn)) :
    wp (getStreamById sid) Q E c = E (mkStreamClosed sid) c := by
  rw [wp_getStreamById_eq, hno]
  simp only [Bool.false_eq_true, if_false]
  have : ¬ (sid > (if streamIdIsOutbound c sid = true then c.highestOut else c.highestIn)) := by
    have h := hold
    omega
  rw [if_neg this]

/-- **WINDOW_UPDATE** for a stream already cleaned out of the table: ignored — no frame, no event, no exception -/
theorem C20_forgotten_window_update (c : Conn) (sid incr : Int) (hs : sid ≠ 0)
    (hno : hasStream c sid = false)
    (hold : sid ≤ (if streamIdIsOutbound c sid then c.highestOut else c.highestIn))
    (hopen : c.cstate = .CLIENT_OPEN ∨ c.cstate = .SERVER_OPEN) :
    wp (receiveWindowUpdateFrame sid incr) (fun fe c' => fe = ([], []) ∧ c' = c) (fun _ _ => False) c := by
  have htab : connTable c.cstate .RECV_WINDOW_UPDATE = some c.cstate := by
    rcases hopen with h | h <;> simp [h, connTable]
  unfold receiveWindowUpdateFrame
  wps
  rw [wp_connInput_ok _ _ _ htab]
  show wp _ _ _ c
  try wps
  have hs' : (sid != 0) = true := by simpa using hs
  simp only [hs', if_true]
  try wps
  rw [getStreamById_forgotten c sid hno hold]
  have hinst : (mkStreamClosed sid).isInstance .StreamClosedError = true := rfl
  simp only [hinst, if_true]
  try wps
  exact ⟨trivial, trivial⟩

/-- **RST_STREAM** for a stream already cleaned out of the table: ignored likewise (StreamClosedError is a
    NoSuchStreamError, which the handler swallows) -/
theorem C20_forgotten_rst_stream (c : Conn) (sid code : Int)
    (hno : hasStream c sid = false)
    (hold : sid ≤ (if streamIdIsOutbound c sid then c.highestOut else c.highestIn))
    (hopen : c.cstate = .CLIENT_OPEN ∨ c.cstate = .SERVER_OPEN) :
    wp (receiveRstStreamFrame sid code) (fun fe c' => fe = ([], []) ∧ c' = c) (fun _ _ => False) c := by
  have htab : connTable c.cstate .RECV_RST_STREAM = some c.cstate := by
    rcases hopen with h | h <;> simp [h, connTable]
  unfold receiveRstStreamFrame
  wps
  rw [wp_connInput_ok _ _ _ htab]
  show wp _ _ _ c
  try wps
  rw [getStreamById_forgotten c sid hno hold]
  have hinst : (mkStreamClosed sid).isInstance .NoSuchStreamError = true := rfl
  simp only [hinst, if_true]
  try wps
  simp only [Bool.false_eq_true, if_false]
  try wps
  exact ⟨trivial, trivial⟩

/-- **DATA** for a stream already cleaned out of the table, fitting the connection window: the connection window is
    charged and — "DATA among them still replenishes the connection window" — the bytes are handed straight back to the
    window manager as processed (`process_bytes`, whose WINDOW_UPDATE, if any, is written in front); the frame is
    answered with RST_STREAM(STREAM_CLOSED) for the handler to write; no event, no exception, the stream table as it
    was -/
theorem C20_forgotten_data (c : Conn) (sid : Int) (payload : Bytes) (es : Bool) (fcl : Int)
    (hno : hasStream c sid = false)
    (hold : sid ≤ (if streamIdIsOutbound c sid then c.highestOut else c.highestIn))
    (hopen : c.cstate = .CLIENT_OPEN ∨ c.cstate = .SERVER_OPEN)
    (hfits : (c.inWM.window_consumed fcl).1 = .ok none) :
    wp (receiveDataFrame sid payload es fcl)
      (fun fe c' =>
        fe.2 = [] ∧
        (∃ wu, fe.1 = wu ++ [Frame.rstStream sid (streamClosedErrorCode : Int)] ∧
          ∀ f ∈ wu, ∃ n, f = Frame.windowUpdate 0 n) ∧
        c'.streams = c.streams ∧
        c'.inWM = ((c.inWM.window_consumed fcl).2.process_bytes fcl).2)
      (fun _ _ => False) c := by
  have htab : connTable c.cstate .RECV_DATA = some c.cstate := by
    rcases hopen with h | h <;> simp [h, connTable]
  unfold receiveDataFrame
  wps
  rw [wp_connInput_ok _ _ _ htab]
  show wp _ _ _ c
  try wps
  rw [wp_onConnWM]
  cases hcons : c.inWM.window_consumed fcl with
  | mk r w =>
    rw [hcons] at hfits
    simp only at hfits
    subst hfits
    simp only
    try wps
    have hno' : hasStream { c with inWM := w } sid = false := hno
    rw [getStreamById_forgotten _ sid hno' hold]
    have hinst : (mkStreamClosed sid).isInstance .StreamClosedError = true := rfl
    simp only [hinst, if_true]
    try wps
    rw [wp_onConnWM]
    have hpb := C04pb w fcl
    cases hp : w.process_bytes fcl with
    | mk r2 w2 =>
      rw [hp] at hpb
      cases r2 with
      | error e => exact hpb.elim
      | ok v =>
        simp only
        try wps
        simp only [mkStreamClosed, Option.getD]
        refine ⟨rfl, ⟨_, rfl, ?_⟩, rfl, ?_⟩
        rotate_left
        · rfl
        intro f hf
        cases v with
        | none => simp at hf
        | some n =>
          simp only at hf
          split at hf
          · simp only [List.mem_singleton] at hf; exact ⟨n, hf⟩
          · simp at hf

/-- the same wrapper for StreamIDTooLowError (what a frame for a stream that is no longer in the table raises): for a
    stream that was closed by reset, exactly one RST_STREAM(STREAM_CLOSED), no events, nothing raised -/
theorem C20_wrapper_too_low (c1 : Conn) (sid : Int)
    (hr : closedByReset c1 sid = true) (hopen : c1.cstate = .CLIENT_OPEN ∨ c1.cstate = .SERVER_OPEN)
    (hmax : 4 ≤ c1.maxOutFrame) :
    ∃ b, (Frame.rstStream sid (ErrorCodes.STREAM_CLOSED : Int)).serialize? = some b ∧
    wp (frameErrorHandler (.h2 .StreamIDTooLowError (ExcClass.StreamIDTooLowError.classCode.map Int.ofNat) (some sid) []))
      (fun evs c2 => evs = [] ∧ c2 = { c1 with out := c1.out ++ b, sent := c1.sent ++ [Frame.rstStream sid (ErrorCodes.STREAM_CLOSED : Int)] })
      (fun _ _ => False) c1 := by
  obtain ⟨b, hb, hlen⟩ := rst_serialize sid (ErrorCodes.STREAM_CLOSED : Int) (by decide)
  refine ⟨b, hb, ?_⟩
  have htab : connTable c1.cstate .SEND_RST_STREAM = some c1.cstate := by
    rcases hopen with h | h <;> simp [h, connTable]
  simp only [frameErrorHandler]
  have hsub : ExcClass.isSub .StreamIDTooLowError .StreamClosedError = false := by decide
  simp only [hsub, Bool.false_eq_true, if_false, Option.getD]
  wps
  simp only [hr, if_true]
  rw [wp_connInput_ok _ _ _ htab]
  wps
  rw [wp_prepare_eq [Frame.rstStream sid (ErrorCodes.STREAM_CLOSED : Int)] _ [b] (by simp) (by simp [hb])
    (by simp only [List.all_cons, List.all_nil, Bool.and_true, hlen, decide_eq_true_eq]; omega)]
  cases c1; simp

/-- the part of `_receive_headers_frame` after the header block has been decoded, for an id that is not in the stream
    table and at or below the high-water mark of its side: StreamIDTooLowError, nothing changed -/
theorem headersRest_too_low (c1 : Conn) (sid : Int) (hs : List Header) (es : Bool) (prio : Option Prio)
    (hno : hasStream c1 sid = false)
    (hold : sid ≤ (if streamIdIsOutbound c1 sid then c1.highestOut else c1.highestIn))
    (hopen : c1.cstate = .CLIENT_OPEN ∨ c1.cstate = .SERVER_OPEN) :
    wp (do
        connInput .RECV_HEADERS
        let c ← getS
        if c.cfg.client && !hasStream c sid && !streamIdIsOutbound c sid && sid > c.highestIn then raise pErr else
        getOrCreateStream sid (!c.cfg.client)
        let (frames, streamEvents) ← withStream sid (Stream.receiveHeaders c.cfg hs es)
        match prio with
        | some p =>
          let (_, pEvents) ← receivePriorityFrame sid p
          pure (frames, setPriorityUpdated streamEvents ++ pEvents)
        | none => pure (frames, streamEvents)) (fun _ _ => False)
      (fun e c' => e = .h2 .StreamIDTooLowError (ExcClass.StreamIDTooLowError.classCode.map Int.ofNat) (some sid) [] ∧
        c' = c1) c1 := by
  have hrecv : connTable c1.cstate .RECV_HEADERS = some c1.cstate := by
    rcases hopen with h | h <;> simp [h, connTable]
  have hnotnew : ∀ b : Bool, (b && !hasStream c1 sid && !streamIdIsOutbound c1 sid && decide (sid > c1.highestIn)) = false := by
    intro b0
    cases ho : streamIdIsOutbound c1 sid with
    | true => simp
    | false =>
      rw [ho] at hold
      simp only [Bool.false_eq_true, if_false] at hold
      have : ¬ (sid > c1.highestIn) := by omega
      simp [this]
  wps
  rw [wp_connInput_ok _ _ c1.cstate hrecv]
  wps
  have e1 : ({ c1 with cstate := c1.cstate } : Conn) = c1 := by cases c1; rfl
  rw [e1]
  rw [hnotnew c1.cfg.client]
  simp only [Bool.false_eq_true, if_false]
  unfold getOrCreateStream
  wps
  rw [hno]
  simp only [Bool.false_eq_true, if_false]
  unfold beginNewStream
  wps
  have hlow : sid ≤ (if streamIdIsOutbound c1 sid = true then c1.highestOut else c1.highestIn) := hold
  rw [if_pos hlow]
  try wps
  constructor <;> first | rfl | trivial

/-- **after the closed stream's state is cleaned up**: a HEADERS frame (a response, trailers, a request's trailers)
    for a stream this endpoint has reset and already removed from its table — the id is at or below the high-water
    mark of its side, the closed-stream memory says SEND_RST_STREAM — is answered with exactly one
    RST_STREAM(STREAM_CLOSED); no event, no exception, however many streams are open and whatever
    MAX_CONCURRENT_STREAMS is (before the repair D48 the limit check came first and raised TooManyStreamsError).
    The header block is still decoded (the compression context stays in step); the premise is that it decodes. -/
theorem C20_forgotten_headers (c : Conn) (sid : Int) (block : Bytes) (es : Bool) (pad : Option Int) (prio : Option Prio)
    (eh : Bool) (fcl : Nat)
    (hno : hasStream c sid = false)
    (hold : sid ≤ (if streamIdIsOutbound c sid then c.highestOut else c.highestIn))
    (hr : closedByReset c sid = true) (hopen : c.cstate = .CLIENT_OPEN ∨ c.cstate = .SERVER_OPEN)
    (hmax : 4 ≤ c.maxOutFrame)
    (hs : List Header) (hp' : Hp) (hdec : Hp.decode block c.hp = (.ok (.ok hs), hp')) :
    ∃ b, (Frame.rstStream sid (ErrorCodes.STREAM_CLOSED : Int)).serialize? = some b ∧
    wp (receiveFrame { frame := .headers sid block es eh pad prio, fcl := fcl })
      (fun evs c2 => evs = [] ∧
        c2 = { c with hp := hp', out := c.out ++ b, sent := c.sent ++ [Frame.rstStream sid (ErrorCodes.STREAM_CLOSED : Int)] })
      (fun _ _ => False) c := by
  obtain ⟨b, hb, hw⟩ := C20_wrapper_too_low { c with hp := hp' } sid hr hopen hmax
  refine ⟨b, hb, ?_⟩
  have hnotnew : (!hasStream c sid && !streamIdIsOutbound c sid && decide (sid > c.highestIn)) = false := by
    cases ho : streamIdIsOutbound c sid with
    | true => simp
    | false =>
      rw [ho] at hold
      simp only [Bool.false_eq_true, if_false] at hold
      have : ¬ (sid > c.highestIn) := by omega
      simp [this]
  have hrest := headersRest_too_low { c with hp := hp' } sid hs es prio hno hold hopen
  have hB : wp (receiveHeadersFrame sid block es prio) (fun _ _ => False)
      (fun e c' => e = .h2 .StreamIDTooLowError (ExcClass.StreamIDTooLowError.classCode.map Int.ofNat) (some sid) [] ∧
        c' = { c with hp := hp' }) c := by
    unfold receiveHeadersFrame
    wps
    simp only [hnotnew, Bool.false_eq_true, if_false]
    try wps
    unfold receiveHeadersRest decodeHeaders
    wps
    rw [wp_eq_ok _ _ _ _ hdec]
    simp only
    wps
    simp only [wp_bind, wp_pure, wp_Mpure, wp_raise, wp_getS, wp_modifyS, wp_ite, wp_liftExcept, wp_tryCatch, wp_zoom] at hrest
    exact hrest
  unfold receiveFrame
  wps
  simp only [dispatch]
  apply wp_mono hB
  · intro _ _ hf; exact hf.elim
  · intro e c' ⟨he, hc'⟩
    subst he; subst hc'
    have hinst : (Exc.h2 ExcClass.StreamIDTooLowError (Option.map Int.ofNat ExcClass.StreamIDTooLowError.classCode) (some sid) []).isInstance .StreamClosedError = false := rfl
    have hinst2 : (Exc.h2 ExcClass.StreamIDTooLowError (Option.map Int.ofNat ExcClass.StreamIDTooLowError.classCode) (some sid) []).isInstance .StreamIDTooLowError = true := rfl
    simp only [hinst, hinst2, Bool.false_or, if_true]
    try wps
    apply wp_mono hw
    · intro evs c2 ⟨h1, h2⟩
      subst h1; subst h2
      wps
      exact ⟨trivial, trivial⟩
    · intro _ _ hf; exact hf.elim

/-- **what "replenishes" means for the ledger**: charging a frame to a window manager and handing the same bytes back as
    processed leaves `current_window_size + bytes_processed` — the window the peer sees plus what the next
    WINDOW_UPDATE will return — exactly what it was, and the maximum untouched; whether a WINDOW_UPDATE comes out now
    or later.  Hypothesis: no more was acknowledged so far than was received (`current + processed ≤ max`, the
    ledger invariant of C05; with it the cap `min processed (max - current)` never bites). -/
theorem C20_credit_conserved (w : WindowManager) (n : Int)
    (hinv : w.current_window_size + w.bytes_processed ≤ w.max_window_size) :
    (((w.window_consumed n).2.process_bytes n).2.current_window_size
      + ((w.window_consumed n).2.process_bytes n).2.bytes_processed
        = w.current_window_size + w.bytes_processed) ∧
    ((w.window_consumed n).2.process_bytes n).2.max_window_size = w.max_window_size := by
  unfold WindowManager.process_bytes WindowManager.maybe_update_window WindowManager.window_consumed
  simp only
  repeat' split
  all_goals (simp only)
  all_goals exact ⟨by omega, trivial⟩

/-- **DATA for a forgotten stream costs the peer nothing**: under the hypotheses of `C20_forgotten_data` and the ledger
    invariant, after the frame the connection window plus the bytes waiting to be returned is what it was before -/
theorem C20_forgotten_data_credit (c : Conn) (sid : Int) (payload : Bytes) (es : Bool) (fcl : Int)
    (hno : hasStream c sid = false)
    (hold : sid ≤ (if streamIdIsOutbound c sid then c.highestOut else c.highestIn))
    (hopen : c.cstate = .CLIENT_OPEN ∨ c.cstate = .SERVER_OPEN)
    (hfits : (c.inWM.window_consumed fcl).1 = .ok none)
    (hinv : c.inWM.current_window_size + c.inWM.bytes_processed ≤ c.inWM.max_window_size) :
    wp (receiveDataFrame sid payload es fcl)
      (fun _ c' => c'.inWM.current_window_size + c'.inWM.bytes_processed
          = c.inWM.current_window_size + c.inWM.bytes_processed ∧ c'.inWM.max_window_size = c.inWM.max_window_size)
      (fun _ _ => False) c := by
  apply wp_mono (C20_forgotten_data c sid payload es fcl hno hold hopen hfits)
  · intro _ c' h
    rw [h.2.2.2]
    exact C20_credit_conserved c.inWM fcl hinv
  · intro _ _ hf; exact hf

/-- non-vacuity of the ledger hypothesis, and a case where the WINDOW_UPDATE comes out at once: a fresh 65535-byte
    window that has 40000 bytes waiting, charged and credited 100 more -/
example : (({ max_window_size := 65535, current_window_size := 20000, bytes_processed := 40000 } : WindowManager).window_consumed 100).1 = .ok none ∧
    ((({ max_window_size := 65535, current_window_size := 20000, bytes_processed := 40000 } : WindowManager).window_consumed 100).2.process_bytes 100)
      = (.ok (some 40100), { max_window_size := 65535, current_window_size := 60000, bytes_processed := 0 }) := by
  constructor <;> rfl

/-- non-vacuity: an open request stream that is reset has the shape the theorem talks about, and DATA racing the
    reset gets the quiet "closed" signal -/
example : stepShape { state := .OPEN, client := some true, headersSent := true } .SEND_RST_STREAM =
      (.ok [], { state := .CLOSED, client := some true, headersSent := true, closedBy := some .SEND_RST_STREAM }) ∧
    (stepShape { state := .CLOSED, client := some true, headersSent := true, closedBy := some .SEND_RST_STREAM } .RECV_DATA).1
      = .streamClosed false := by decide

end H2.C20
