import H2.Proofs.RecvEmits
namespace H2
open H2.Gen H2.Conn

/-! ### lifting an invariant of the frame handlers to `receive_data`

  For a predicate on connections that does not look at the frame buffer and that the connection state machine,
  `_prepare_for_sending` and every frame handler preserve (whether they return or raise), `receive_data` preserves it
  for every byte string. -/

structure StableB (P : Conn → Prop) : Prop where
  fb : ∀ c fb, P c → P { c with fb := fb }
  connInput : ∀ i c, P c → wp (connInput i) (fun _ c' => P c') (fun _ c' => P c') c
  prepare : ∀ fs c, P c → wp (prepareForSending fs) (fun _ c' => P c') (fun _ c' => P c') c

structure Stable (P : Conn → Prop) : Prop extends StableB P where
  dispatch : ∀ rf c, P c → wp (dispatch rf) (fun _ c' => P c') (fun _ c' => P c') c

variable {P : Conn → Prop}

theorem stable_frameErrorHandler (hP : StableB P) (e : Exc) (c : Conn) (h : P c) :
    wp (frameErrorHandler e) (fun _ c' => P c') (fun _ c' => P c') c := by
  unfold frameErrorHandler
  cases e with
  | py k => exact h
  | h2 cls code esid evs =>
    simp only
    have step : ∀ (fr : Frame) (ret : List Event), wp (do
        Conn.connInput .SEND_RST_STREAM
        prepareForSending [fr]
        pure ret) (fun _ c' => P c') (fun _ c' => P c') c := by
      intro fr ret
      wps
      refine wp_mono (hP.connInput _ c h) ?_ (fun _ _ h' => h')
      intro _ c1 h1
      wps
      refine wp_mono (hP.prepare _ c1 h1) ?_ (fun _ _ h' => h')
      intro _ c2 h2; wps; exact h2
    split
    · wps
      split
      · have := step (Frame.rstStream (esid.getD 0) (code.getD 0)) evs
        simp only [wp_bind] at this
        exact this
      · exact h
    · wps
      split
      · have := step (Frame.rstStream (esid.getD 0) ErrorCodes.STREAM_CLOSED) []
        simp only [wp_bind] at this
        exact this
      · split <;> exact h

theorem stableB_receiveFrame (hP : StableB P) (rf : RFrame) (c : Conn) (h : P c)
    (hd : wp (dispatch rf) (fun _ c' => P c') (fun _ c' => P c') c) :
    wp (receiveFrame rf) (fun _ c' => P c') (fun _ c' => P c') c := by
  unfold receiveFrame
  wps
  refine wp_mono hd ?_ ?_
  · intro fe c1 h1
    obtain ⟨frames, events⟩ := fe
    wps
    refine wp_mono (hP.prepare frames c1 h1) ?_ (fun _ _ h' => h')
    intro _ c2 h2; wps; exact h2
  · intro e c1 h1
    split
    · try wps
      refine wp_mono (stable_frameErrorHandler hP e c1 h1) ?_ (fun _ _ h' => h')
      intro evs c2 h2; wps; exact h2
    · exact h1

theorem stable_receiveFrame (hP : Stable P) (rf : RFrame) (c : Conn) (h : P c) :
    wp (receiveFrame rf) (fun _ c' => P c') (fun _ c' => P c') c :=
  stableB_receiveFrame hP.toStableB rf c h (hP.dispatch rf c h)

theorem stable_hideFb {α : Type} (hP : StableB P) (m : CM α) (c : Conn) (h : P c)
    (hm : ∀ c, P c → wp m (fun _ c' => P c') (fun _ c' => P c') c) : P (hideFb m c).2 := by
  unfold hideFb
  have := hm { c with fb := {} } (hP.fb c {} h)
  unfold wp at this
  cases hmc : m { c with fb := {} } with
  | mk r c' =>
    rw [hmc] at this
    simp only
    have hc' : P c' := by cases r <;> exact this
    exact hP.fb c' c.fb hc'

theorem stable_recvLoop (hP : Stable P) (fuel : Nat) (evs : List Event) (c : Conn) (h : P c) :
    P (recvLoop fuel evs c).2 := by
  induction fuel generalizing evs c with
  | zero => exact h
  | succ n ih =>
    rw [recvLoop_succ]
    cases hnx : FrameBuffer.next (c.fb.data.length + 1) c.fb with
    | mk r fb =>
      cases r with
      | error e => exact hP.fb c fb h
      | ok o =>
        cases o with
        | none => exact hP.fb c fb h
        | some rf =>
          simp only
          have h1 := stable_hideFb hP.toStableB (receiveFrame rf) { c with fb := fb } (hP.fb c fb h) (stable_receiveFrame hP rf)
          cases hm : hideFb (receiveFrame rf) { c with fb := fb } with
          | mk r2 c2 =>
            rw [hm] at h1
            cases r2 with
            | error e => exact h1
            | ok es => exact ih _ _ (hP.fb c2 _ h1)

theorem stable_terminate (hP : StableB P) (code : Int) (c : Conn) (h : P c) :
    wp (terminateConnection code) (fun _ c' => P c') (fun _ c' => P c') c := by
  unfold terminateConnection
  wps
  refine wp_mono (hP.connInput _ c h) ?_ (fun _ _ h' => h')
  intro _ c1 h1
  exact hP.prepare _ c1 h1

theorem stable_handleRecvError (hP : StableB P) (e : Exc) (c : Conn) (h : P c) :
    wp (handleRecvError e) (fun _ c' => P c') (fun _ c' => P c') c := by
  unfold handleRecvError
  split
  · wps
    refine wp_mono (stable_terminate hP _ c h) ?_ (fun _ _ h' => h')
    intro _ c1 h1; wps; exact h1
  · split
    · split
      · wps
        refine wp_mono (stable_terminate hP _ c h) ?_ (fun _ _ h' => h')
        intro _ c1 h1; wps; exact h1
      · exact h
    · exact h
  · exact h

/-- **`receive_data` preserves every stable predicate**, for every byte string -/
theorem stable_receiveData (hP : Stable P) (d : Bytes) (c : Conn) (h : P c) : P (receiveData d c).2 := by
  unfold receiveData
  cases FrameBuffer.addData c.fb d with
  | error e => exact h
  | ok fb =>
    simp only
    have h0 := hP.fb c { fb with maxFrameSize := c.maxInFrame } h
    have h1 := stable_recvLoop hP (fb.data.length + 1) [] _ h0
    cases hl : recvLoop (fb.data.length + 1) [] { c with fb := { fb with maxFrameSize := c.maxInFrame } } with
    | mk r c1 =>
      rw [hl] at h1
      cases r with
      | ok evs => exact h1
      | error e => exact stable_hideFb hP.toStableB (handleRecvError e) c1 h1 (stable_handleRecvError hP.toStableB e)

/-! ### the same for predicates that need the frames to be what the parser yields

  A predicate like "the connection's outbound window is not negative" is not kept by the WINDOW_UPDATE handler for an
  arbitrary increment — only for the increments hyperframe lets through (`RFrameOk`: at least 1).  `StableV` asks the
  dispatcher to keep the predicate for such frames only; `receive_data` then keeps it for every byte string, because
  every frame the frame buffer yields is such a frame (`next_ok`; that needs the header-block backlog to be well
  formed, which `C17.Inv` says). -/

structure StableV (P : Conn → Prop) : Prop extends StableB P where
  dispatch : ∀ rf c, RFrameOk rf → P c → wp (dispatch rf) (fun _ c' => P c') (fun _ c' => P c') c

theorem Stable.toV (hP : Stable P) : StableV P := { hP.toStableB with dispatch := fun rf c _ h => hP.dispatch rf c h }

theorem stableV_recvLoop (hP : StableV P) (fuel : Nat) (evs : List Event) (c : Conn) (h : P c)
    (hh : HbOk c.fb.headersBuffer) : P (recvLoop fuel evs c).2 := by
  induction fuel generalizing evs c with
  | zero => exact h
  | succ n ih =>
    rw [recvLoop_succ]
    have hn := next_ok (c.fb.data.length + 1) c.fb hh
    cases hnx : FrameBuffer.next (c.fb.data.length + 1) c.fb with
    | mk r fb =>
      rw [hnx] at hn
      cases r with
      | error e => exact hP.fb c fb h
      | ok o =>
        cases o with
        | none => exact hP.fb c fb h
        | some rf =>
          simp only
          have hrf := hn.1 rf fb rfl
          have h1 := stable_hideFb hP.toStableB (receiveFrame rf) { c with fb := fb } (hP.fb c fb h)
            (fun c' h' => stableB_receiveFrame hP.toStableB rf c' h' (hP.dispatch rf c' hrf h'))
          have hfb := hideFb_fb (receiveFrame rf) { c with fb := fb }
          cases hm : hideFb (receiveFrame rf) { c with fb := fb } with
          | mk r2 c2 =>
            rw [hm] at h1 hfb
            cases r2 with
            | error e => exact h1
            | ok es =>
              refine ih _ _ (hP.fb c2 _ h1) ?_
              show HbOk c2.fb.headersBuffer
              simp only at hfb
              rw [hfb]; exact hn.2.2

/-- **`receive_data` preserves every predicate that is stable for parsed frames**, for every byte string -/
theorem stableV_receiveData (hP : StableV P) (d : Bytes) (c : Conn) (h : P c) (hh : HbOk c.fb.headersBuffer) :
    P (receiveData d c).2 := by
  unfold receiveData
  cases ha : FrameBuffer.addData c.fb d with
  | error e => exact h
  | ok fb =>
    simp only
    have hhb : fb.headersBuffer = c.fb.headersBuffer := by
      rw [FrameBuffer.addData_eq] at ha
      split at ha
      · injection ha with ha; subst ha; rfl
      · split at ha
        · injection ha with ha; subst ha; rfl
        · simp at ha
    have h0 := hP.fb c { fb with maxFrameSize := c.maxInFrame } h
    have h1 := stableV_recvLoop hP (fb.data.length + 1) [] _ h0 (by show HbOk fb.headersBuffer; rw [hhb]; exact hh)
    cases hl : recvLoop (fb.data.length + 1) [] { c with fb := { fb with maxFrameSize := c.maxInFrame } } with
    | mk r c1 =>
      rw [hl] at h1
      cases r with
      | ok evs => exact h1
      | error e => exact stable_hideFb hP.toStableB (handleRecvError e) c1 h1 (stable_handleRecvError hP.toStableB e)

end H2
