"""Independent (not hyperframe / not hpack) construction and strict decoding of
HTTP/2 frames, used to inject peer traffic and by the oracles (C02, C18 ...).
"""
import struct

DATA, HEADERS, PRIORITY, RST_STREAM, SETTINGS, PUSH_PROMISE, PING, GOAWAY, WINDOW_UPDATE, CONTINUATION, ALTSVC = range(11)
NAMES = ['DATA', 'HEADERS', 'PRIORITY', 'RST_STREAM', 'SETTINGS', 'PUSH_PROMISE', 'PING', 'GOAWAY',
         'WINDOW_UPDATE', 'CONTINUATION', 'ALTSVC']
PREFACE = b'PRI * HTTP/2.0\r\n\r\nSM\r\n\r\n'


def frame(ftype, flags, sid, payload, length=None):
    n = len(payload) if length is None else length
    return struct.pack('>I', n)[1:] + bytes([ftype & 0xFF, flags & 0xFF]) + struct.pack('>I', sid & 0xFFFFFFFF) + payload


def hpack_int(n, prefix, first=0):
    mx = (1 << prefix) - 1
    if n < mx:
        return bytes([first | n])
    out = [first | mx]
    n -= mx
    while n >= 128:
        out.append((n & 127) | 128)
        n >>= 7
    out.append(n)
    return bytes(out)


def hpack_literal_block(headers, never=False):
    """literal header fields without indexing, new names, no Huffman: leaves every dynamic table alone"""
    out = b''
    for h in headers:
        n, v = h[0], h[1]
        if isinstance(n, str):
            n = n.encode()
        if isinstance(v, str):
            v = v.encode()
        out += bytes([0x10 if (never or (len(h) > 2 and h[2])) else 0x00])
        out += hpack_int(len(n), 7) + n + hpack_int(len(v), 7) + v
    return out


def headers_frames(sid, block, end_stream=False, prio=None, pad=None, max_frag=None, end_headers=True):
    """HEADERS (+ CONTINUATION) carrying `block`; prio = (dep, weight, excl)"""
    frags = [block] if not max_frag else ([block[i:i + max_frag] for i in range(0, len(block), max_frag)] or [b''])
    flags = (1 if end_stream else 0) | (0x20 if prio else 0) | (8 if pad is not None else 0)
    body = b''
    if pad is not None:
        body += bytes([pad])
    if prio:
        dep, weight, excl = prio
        body += struct.pack('>IB', (dep & 0x7FFFFFFF) | (0x80000000 if excl else 0), weight & 0xFF)
    body += frags[0] + (b'\0' * (pad or 0))
    out = b''
    if len(frags) == 1 and end_headers:
        flags |= 4
    out += frame(HEADERS, flags, sid, body)
    for i, fr in enumerate(frags[1:]):
        last = (i == len(frags) - 2)
        out += frame(CONTINUATION, 4 if (last and end_headers) else 0, sid, fr)
    return out


def push_promise_frames(sid, promised, block, pad=None, max_frag=None):
    frags = [block] if not max_frag else ([block[i:i + max_frag] for i in range(0, len(block), max_frag)] or [b''])
    flags = (8 if pad is not None else 0) | (4 if len(frags) == 1 else 0)
    body = (bytes([pad]) if pad is not None else b'') + struct.pack('>I', promised & 0xFFFFFFFF) + frags[0] + b'\0' * (pad or 0)
    out = frame(PUSH_PROMISE, flags, sid, body)
    for i, fr in enumerate(frags[1:]):
        out += frame(CONTINUATION, 4 if i == len(frags) - 2 else 0, sid, fr)
    return out


def data_frame(sid, data, end_stream=False, pad=None):
    flags = (1 if end_stream else 0) | (8 if pad is not None else 0)
    body = (bytes([pad]) if pad is not None else b'') + data + b'\0' * (pad or 0)
    return frame(DATA, flags, sid, body)


def settings_frame(items=(), ack=False):
    body = b''.join(struct.pack('>HI', k & 0xFFFF, v & 0xFFFFFFFF) for k, v in items)
    return frame(SETTINGS, 1 if ack else 0, 0, body)


def window_update(sid, incr):
    return frame(WINDOW_UPDATE, 0, sid, struct.pack('>I', incr & 0xFFFFFFFF))


def rst_stream(sid, code):
    return frame(RST_STREAM, 0, sid, struct.pack('>I', code & 0xFFFFFFFF))


def ping(data, ack=False):
    return frame(PING, 1 if ack else 0, 0, data)


def goaway(last, code, extra=b''):
    return frame(GOAWAY, 0, 0, struct.pack('>II', last & 0xFFFFFFFF, code & 0xFFFFFFFF) + extra)


def priority(sid, dep, weight, excl=False):
    return frame(PRIORITY, 0, sid, struct.pack('>IB', (dep & 0x7FFFFFFF) | (0x80000000 if excl else 0), weight & 0xFF))


def altsvc(sid, origin, field):
    return frame(ALTSVC, 0, sid, struct.pack('>H', len(origin)) + origin + field)


# ---------------------------------------------------------------------------
# strict decoding (written from RFC 7540 section 4.1 / 6, for the oracles)
# ---------------------------------------------------------------------------

class WireError(Exception):
    pass


def split_frames(buf):
    """-> list of dict(type, flags, sid, payload, raw_sid); raises WireError on a truncated stream"""
    out = []
    i = 0
    while i < len(buf):
        if len(buf) - i < 9:
            raise WireError('truncated frame header at %d' % i)
        n = int.from_bytes(buf[i:i + 3], 'big')
        t, fl = buf[i + 3], buf[i + 4]
        sid = int.from_bytes(buf[i + 5:i + 9], 'big')
        if len(buf) - i - 9 < n:
            raise WireError('truncated frame body at %d' % i)
        out.append({'type': t, 'flags': fl, 'sid': sid & 0x7FFFFFFF, 'r': sid >> 31, 'payload': buf[i + 9:i + 9 + n]})
        i += 9 + n
    return out


def decode_frame(fr):
    """strict per-type decoding of one split frame -> dict with named fields; raises WireError"""
    t, fl, sid, p = fr['type'], fr['flags'], fr['sid'], fr['payload']
    d = {'type': t, 'name': NAMES[t] if t < len(NAMES) else 'EXT%d' % t, 'sid': sid, 'flags': fl, 'len': len(p)}
    if fr['r']:
        raise WireError('reserved bit set')

    def unpad(p):
        if fl & 8:
            if not p:
                raise WireError('missing pad length')
            pl = p[0]
            if pl >= len(p):     # RFC 6.1: padding >= remaining payload is an error
                raise WireError('padding too long')
            if any(p[len(p) - pl:]):
                raise WireError('non-zero padding')
            return p[1:len(p) - pl], pl
        return p, None
    if t == DATA:
        if sid == 0:
            raise WireError('DATA on stream 0')
        d['data'], d['pad'] = unpad(p)
        d['end_stream'] = bool(fl & 1)
        d['fcl'] = len(p)
    elif t == HEADERS:
        if sid == 0:
            raise WireError('HEADERS on stream 0')
        body, d['pad'] = unpad(p)
        if fl & 0x20:
            if len(body) < 5:
                raise WireError('short priority')
            dep, w = struct.unpack('>IB', body[:5])
            d['prio'] = (dep & 0x7FFFFFFF, w + 1, bool(dep >> 31))
            body = body[5:]
        else:
            d['prio'] = None
        d['block'] = body
        d['end_stream'] = bool(fl & 1)
        d['end_headers'] = bool(fl & 4)
    elif t == PRIORITY:
        if sid == 0 or len(p) != 5:
            raise WireError('bad PRIORITY')
        dep, w = struct.unpack('>IB', p)
        d['prio'] = (dep & 0x7FFFFFFF, w + 1, bool(dep >> 31))
    elif t == RST_STREAM:
        if sid == 0 or len(p) != 4:
            raise WireError('bad RST_STREAM')
        d['code'] = struct.unpack('>I', p)[0]
    elif t == SETTINGS:
        if sid != 0 or len(p) % 6 or ((fl & 1) and p):
            raise WireError('bad SETTINGS')
        d['ack'] = bool(fl & 1)
        d['items'] = [struct.unpack('>HI', p[i:i + 6]) for i in range(0, len(p), 6)]
    elif t == PUSH_PROMISE:
        if sid == 0:
            raise WireError('PUSH_PROMISE on stream 0')
        body, d['pad'] = unpad(p)
        if len(body) < 4:
            raise WireError('short PUSH_PROMISE')
        pr = struct.unpack('>I', body[:4])[0]
        if pr >> 31:
            raise WireError('reserved bit in promised id')
        d['promised'] = pr
        d['block'] = body[4:]
        d['end_headers'] = bool(fl & 4)
    elif t == PING:
        if sid != 0 or len(p) != 8:
            raise WireError('bad PING')
        d['ack'] = bool(fl & 1)
        d['data'] = p
    elif t == GOAWAY:
        if sid != 0 or len(p) < 8:
            raise WireError('bad GOAWAY')
        last, code = struct.unpack('>II', p[:8])
        if last >> 31:
            raise WireError('reserved bit in last stream id')
        d['last'], d['code'], d['extra'] = last, code, p[8:]
    elif t == WINDOW_UPDATE:
        if len(p) != 4:
            raise WireError('bad WINDOW_UPDATE')
        inc = struct.unpack('>I', p)[0]
        if inc >> 31 or inc == 0:
            raise WireError('bad increment')
        d['incr'] = inc
    elif t == CONTINUATION:
        if sid == 0:
            raise WireError('CONTINUATION on stream 0')
        d['block'] = p
        d['end_headers'] = bool(fl & 4)
    elif t == ALTSVC:
        if len(p) < 2:
            raise WireError('bad ALTSVC')
        ol = struct.unpack('>H', p[:2])[0]
        if len(p) < 2 + ol:
            raise WireError('bad ALTSVC origin')
        d['origin'], d['field'] = p[2:2 + ol], p[2 + ol:]
    else:
        d['body'] = p
    return d


def decode_all(buf):
    return [decode_frame(f) for f in split_frames(buf)]
