#!/bin/sh
# all_seeds.sh : every seeded mutant against the check of its own property (quick tier), then every behaviour-preserving
# rewrite of benign/ against the checks named in its CHECKS file.  Prints one line per run; /repo is restored after each.
cd /verif
for d in seeded/*/; do
  s=$(basename $d); p=${s%%-*}
  sh tools/try_seed.sh $s $p 2>&1 | grep -E -- "-> |VIOLATION" | grep -v "^\[$s\] KNOWN" | cut -c1-230
done
for d in benign/*/; do
  b=$(basename $d)
  sh tools/try_benign.sh $b $(cat $d/CHECKS) 2>&1 | grep -E -- "-> |VIOLATION|alarm|ALARM" | cut -c1-230
done
echo ALLDONE
