#!/venv/bin/python
"""gen_coverage.py [pid ...] — line coverage of /repo/src/h2 under the generated programs of the given profiles
(default: all), to see which parts of the library the correspondence never exercises.  Diagnostic tool, not a check."""
import os, sys, random, time
ROOT = os.path.dirname(os.path.dirname(os.path.abspath(__file__)))
sys.path.insert(0, os.path.join(ROOT, 'harness'))
os.environ.setdefault('H2_SRC', '/repo/src')
import coverage
cov = coverage.Coverage(include=['/repo/src/h2/*'], branch=True, data_file=None)
cov.start()
import checklib as L
from profiles import PROFILES
pids = sys.argv[1:] or sorted(PROFILES)
n = int(os.environ.get('N', '150'))
t0 = time.time()
for pid in pids:
    L.run_programs(pid, 1, n, None, time.time() + 600)
    import special
    f = getattr(special, 'special_' + pid, None)
    if f:
        f(1, 'quick', None, time.time() + 600)
    special.run_corpus(pid, None)
cov.stop()
print('programs run for', pids, 'in %.0fs' % (time.time() - t0))
cov.report(show_missing=True, skip_covered=False)
