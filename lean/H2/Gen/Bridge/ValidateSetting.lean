/- checked on every run: the function regenerated from /repo is the reference definition -/
import H2.Gen.WindowsRaw
import H2.Gen.BridgeTac
namespace H2.Bridge
open H2.Gen

theorem validate_setting_eq (k v : Int) : GenRaw.validate_setting k v = validate_setting k v := by
  bridge GenRaw.validate_setting validate_setting

end H2.Bridge
