/-
  C11 — settings take effect exactly when acknowledged, one frame per ACK, in order.

  Proved of the model, for every state and argument:
   * the `Settings` object is one FIFO queue per setting (`C11_append_queue`, `C11_acknowledge_queue`,
     `C11_acknowledge_reports`), and a queued value is not the current value (`C11_not_enforced_before_ack`);
   * `update_settings`: a call that raises changes nothing; one that returns queues exactly its values and writes
     exactly one SETTINGS frame carrying them (`C11_update_settings`);
   * a received SETTINGS frame is applied at once, reported once with (old, new) per setting, answered by exactly one
     ACK (`C11_settings_received`); a received ACK produces exactly one SettingsAcknowledged reporting what was popped,
     and the popped values are in force from then on (`C11_ack_received`).
  NOT true of the code, and proved so: acknowledgements are matched per setting, not per SETTINGS frame
  (`C11_ack_matching_witness`, known finding D8 — the pinned test suite relies on that behaviour, so it is recorded,
  not repaired).  With at most one SETTINGS frame outstanding the two notions coincide.
-/
import H2.Proofs.ApiOk
namespace H2.C11
open H2 H2.Gen H2.Conn

/-! ### the Settings object: one queue of values per setting -/

/-- the values of setting `k`: current value first (None: no current value), then the values waiting to be acknowledged -/
def queue (s : Settings) (k : Int) : List (Option Int) := (s.lookup k).getD []

/-- all the values of one validated SETTINGS frame appended in order -/
def appendAll (s : Settings) (items : List (Int × Int)) : Settings := items.foldl (fun s kv => Settings.append s kv.1 kv.2) s

theorem validated_setItem (s : Settings) (k v : Int) (rest : List (Int × Int))
    (h : validateSettingsList ((k, v) :: rest) = .ok ()) : Settings.setItem s k v = .ok (Settings.append s k v) := by
  unfold validateSettingsList at h
  unfold Settings.setItem
  obtain ⟨code, hv, _, _⟩ := validate_setting_ok k v
  rw [hv] at h ⊢
  simp only at h ⊢
  by_cases hc : code = 0
  · subst hc; simp
  · exfalso
    have e1 : (code == 0) = false := by simp [hc]
    simp only [e1, Bool.false_and, Bool.false_eq_true, if_false] at h
    have e2 : (code != 0) = true := by simp [hc]
    simp [e2] at h

/-- a list that `update_settings` has validated is appended completely: `Settings.update` cannot stop half-way -/
theorem validated_update (s : Settings) (items : List (Int × Int)) (h : validateSettingsList items = .ok ()) :
    Settings.update s items = (.ok (appendAll s items), appendAll s items) := by
  induction items generalizing s with
  | nil => rfl
  | cons kv rest ih =>
    obtain ⟨k, v⟩ := kv
    unfold Settings.update
    rw [validated_setItem s k v rest h]
    simp only
    exact ih _ (validateSettingsList_cons k v rest h).2

theorem lookup_map_same (s : Settings) (k : Int) (f : List (Option Int) → List (Option Int)) :
    (s.map fun e => if e.1 == k then (e.1, f e.2) else e).lookup k = (s.lookup k).map f := by
  induction s with
  | nil => rfl
  | cons e t ih =>
    obtain ⟨a, l⟩ := e
    simp only [List.map_cons, List.lookup]
    by_cases h : a = k
    · subst h; simp
    · have h1 : (a == k) = false := by simp [h]
      have h2 : (k == a) = false := by simp; omega
      simp only [h1, Bool.false_eq_true, if_false, List.lookup, h2]
      exact ih

theorem lookup_map_other (s : Settings) (k j : Int) (hj : j ≠ k) (f : List (Option Int) → List (Option Int)) :
    (s.map fun e => if e.1 == k then (e.1, f e.2) else e).lookup j = s.lookup j := by
  induction s with
  | nil => rfl
  | cons e t ih =>
    obtain ⟨a, l⟩ := e
    simp only [List.map_cons, List.lookup]
    by_cases h : a = k
    · subst h
      have h2 : (j == a) = false := by simp [hj]
      simp only [beq_self_eq_true, if_true, List.lookup, h2]
      exact ih
    · have h1 : (a == k) = false := by simp [h]
      simp only [h1, Bool.false_eq_true, if_false, List.lookup]
      split
      · rfl
      · exact ih

theorem any_key_lookup (s : Settings) (k : Int) : (s.any fun e => e.1 == k) = (s.lookup k).isSome := by
  induction s with
  | nil => rfl
  | cons e t ih =>
    obtain ⟨a, l⟩ := e
    simp only [List.any_cons, List.lookup]
    by_cases h : a = k
    · subst h; simp
    · have h1 : (a == k) = false := by simp [h]
      have h2 : (k == a) = false := by simp; omega
      simp [h1, h2, ih]

/-- **`__setitem__` puts the value at the end of its own setting's queue** and touches no other setting -/
theorem C11_append_queue (s : Settings) (k v j : Int) :
    queue (Settings.append s k v) j =
      if j = k then (if (s.lookup k).isSome then queue s k ++ [some v] else [none, some v]) else queue s j := by
  unfold Settings.append queue
  rw [any_key_lookup]
  by_cases hj : j = k
  · subst hj
    simp only [if_true]
    cases hl : s.lookup j with
    | none =>
      simp only [Option.isSome_none, Bool.false_eq_true, if_false]
      rw [List.lookup_append, hl]; simp [List.lookup]
    | some q =>
      simp only [Option.isSome_some, if_true]
      rw [lookup_map_same s j (· ++ [some v]), hl]; rfl
  · simp only [hj, if_false]
    split
    · rw [lookup_map_other s k j hj (· ++ [some v])]
    · rename_i hno
      rw [List.lookup_append]
      cases hl : s.lookup j with
      | none =>
        have : (j == k) = false := by simp [hj]
        simp [List.lookup, this]
      | some q => rfl

/-- **`acknowledge()` pops the oldest waiting value of every setting that has one** (per setting, not per frame) and
    reports it with the value it replaces -/
theorem C11_acknowledge_queue (s : Settings) (j : Int) :
    queue (Settings.acknowledge s).2 j =
      (match queue s j with
       | _ :: rest@(_ :: _) => rest
       | q => q) := by
  rw [acknowledge_snd]
  unfold queue
  induction s with
  | nil => rfl
  | cons e t ih =>
    obtain ⟨a, l⟩ := e
    simp only [List.map_cons, List.lookup, popEntry_fst]
    by_cases h : j = a
    · subst h
      simp only [beq_self_eq_true, Option.getD_some]
      unfold popEntry
      simp only
      cases l with
      | nil => rfl
      | cons x r => cases r <;> rfl
    · have h2 : (j == a) = false := by simp [h]
      simp only [h2]
      exact ih

theorem C11_acknowledge_reports (s : Settings) (k : Int) (old : Option Int) (new : Int) :
    (k, old, new) ∈ (Settings.acknowledge s).1 ↔ ∃ rest, (k, old :: some new :: rest) ∈ s := by
  simp only [Settings.acknowledge, List.mem_filterMap]
  constructor
  · rintro ⟨e, he, hm⟩
    obtain ⟨a, l⟩ := e
    simp only at hm
    split at hm
    · rename_i xl o n r
      injection hm with hm
      injection hm with h1 hm
      injection hm with h2 h3
      subst h1 h2 h3
      exact ⟨r, he⟩
    · cases hm
  · rintro ⟨rest, hm⟩
    exact ⟨_, hm, rfl⟩

/-! ### `update_settings` -/

/-- the part of the connection that SETTINGS handling may touch, besides the connection state machine -/
def sameButState (c c' : Conn) : Prop := c' = { c with cstate := c'.cstate }

/-- **an `update_settings` call that raises changes nothing** (the state machine apart, when it is the one that refuses);
    one that returns has queued exactly the given values, in order, and written exactly one SETTINGS frame carrying them -/
theorem C11_update_settings (items : List (Int × Int)) (c : Conn) :
    wp (updateSettings items)
      (fun _ c' => c'.localSettings = appendAll c.localSettings items ∧
          c'.sent = c.sent ++ [Frame.settings false items] ∧
          c'.remoteSettings = c.remoteSettings ∧ c'.maxInFrame = c.maxInFrame ∧ c'.inWM = c.inWM ∧
          c'.streams = c.streams ∧ c'.hp = c.hp)
      (fun _ c' => sameButState c c') c := by
  unfold updateSettings
  wps
  cases hval : validateSettingsList items with
  | error e => simp only; rfl
  | ok u =>
    simp only
    try wps
    split
    · rfl
    · rename_i hsize
      unfold wp connInput
      cases hct : connTable c.cstate .SEND_SETTINGS with
      | none => simp only; rfl
      | some t =>
        simp only
        show wp _ _ _ { c with cstate := t }
        wps
        rw [validated_update _ items hval]
        simp only
        wps
        have hfit : ∀ f ∈ [Frame.settings false items],
            (∃ b, f.serialize? = some b) ∧ (f.bodyLen : Int) ≤ ({ c with cstate := t, localSettings := appendAll c.localSettings items } : Conn).maxOutFrame := by
          intro f hf
          simp only [List.mem_singleton] at hf; subst hf
          obtain ⟨⟨b, hb⟩, hl⟩ := settings_serialize items (validateSettingsList_ok items hval)
          refine ⟨⟨b, hb⟩, ?_⟩
          rw [hl]
          show ((6 * items.length : Nat) : Int) ≤ c.maxOutFrame
          omega
        obtain ⟨bs, hbs⟩ : ∃ bs, [Frame.settings false items].mapM Frame.serialize? = some bs := by
          obtain ⟨⟨b, hb⟩, _⟩ := hfit _ (List.mem_singleton.mpr rfl)
          exact ⟨[b], by simp [List.mapM_cons, hb]⟩
        rw [wp_prepare_eq _ _ bs (by simp) hbs (by
          simp only [List.all_cons, List.all_nil, Bool.and_true, decide_eq_true_eq]
          exact (hfit _ (List.mem_singleton.mpr rfl)).2)]
        exact ⟨rfl, rfl, rfl, rfl, rfl, rfl, rfl⟩

/-- a value that is only queued is not the current value: appending to a setting that has a current value leaves every
    current value as it was (so nothing is enforced before the acknowledgement) -/
theorem C11_not_enforced_before_ack (s : Settings) (k v j : Int) (hne : ∀ q, s.lookup k = some q → q ≠ []) :
    Settings.getItem? (Settings.append s k v) j = Settings.getItem? s j := by
  have hq := C11_append_queue s k v j
  unfold queue at hq
  unfold Settings.getItem?
  by_cases hj : j = k
  · subst hj
    simp only [if_true] at hq
    cases hl : s.lookup j with
    | none =>
      rw [hl] at hq
      simp only [Option.isSome_none, Bool.false_eq_true, if_false] at hq
      cases hl2 : (Settings.append s j v).lookup j with
      | none => rfl
      | some q => rw [hl2] at hq; simp only [Option.getD_some] at hq; subst hq; rfl
    | some q0 =>
      rw [hl] at hq
      simp only [Option.isSome_some, if_true, Option.getD_some] at hq
      have hne0 := hne q0 hl
      cases hl2 : (Settings.append s j v).lookup j with
      | none =>
        rw [hl2] at hq
        simp only [Option.getD_none] at hq
        cases q0 with
        | nil => exact absurd rfl hne0
        | cons x r => simp at hq
      | some q =>
        rw [hl2] at hq; simp only [Option.getD_some] at hq; subst hq
        cases q0 with
        | nil => exact absurd rfl hne0
        | cons x r => cases x <;> rfl
  · simp only [hj, if_false] at hq
    cases hl : s.lookup j with
    | none =>
      rw [hl] at hq
      cases hl2 : (Settings.append s k v).lookup j with
      | none => rfl
      | some q => rw [hl2] at hq; simp only [Option.getD_some, Option.getD_none] at hq; subst hq; rfl
    | some q0 =>
      rw [hl] at hq
      cases hl2 : (Settings.append s k v).lookup j with
      | none =>
        rw [hl2] at hq; simp only [Option.getD_some, Option.getD_none] at hq; subst hq; rfl
      | some q => rw [hl2] at hq; simp only [Option.getD_some] at hq; subst hq; rfl

/-! ### an acknowledgement arrives -/

theorem wp_ifcc_frame {Q : Unit → Conn → Prop} {E : Exc → Conn → Prop} (o n : Int) (c : Conn)
    (hq : ∀ ss, Q () { c with streams := ss }) (he : ∀ e ss, E e { c with streams := ss }) :
    wp (inboundFlowControlChangeFromSettings o n) Q E c := by
  unfold wp inboundFlowControlChangeFromSettings
  simp only
  cases inboundFlowControlChangeFromSettings.go (n - o) [] c.streams with
  | mk r ss => cases r <;> first | exact hq _ | exact he _ _

theorem wp_fcc_frame {Q : Unit → Conn → Prop} {E : Exc → Conn → Prop} (o n : Int) (c : Conn)
    (hq : ∀ ss, Q () { c with streams := ss }) (he : ∀ e ss, E e { c with streams := ss }) :
    wp (flowControlChangeFromSettings o n) Q E c := by
  unfold wp flowControlChangeFromSettings
  simp only
  cases flowControlChangeFromSettings.go (n - o) [] c.streams with
  | mk r ss => cases r <;> first | exact hq _ | exact he _ _

theorem localOtherChanges_fields (ch : List (Int × Option Int × Int)) (c : Conn) :
    (localOtherChanges ch c).localSettings = c.localSettings ∧ (localOtherChanges ch c).remoteSettings = c.remoteSettings ∧
    (localOtherChanges ch c).sent = c.sent ∧ (localOtherChanges ch c).out = c.out ∧
    (localOtherChanges ch c).maxInFrame =
      (match findChange ch SettingCodes.MAX_FRAME_SIZE with | some (_, new) => new | none => c.maxInFrame) := by
  unfold localOtherChanges
  cases findChange ch SettingCodes.MAX_HEADER_LIST_SIZE <;> cases findChange ch SettingCodes.MAX_FRAME_SIZE <;>
    cases findChange ch SettingCodes.HEADER_TABLE_SIZE <;> exact ⟨rfl, rfl, rfl, rfl, rfl⟩

/-- **SETTINGS ACK**: exactly one SettingsAcknowledged, reporting exactly what `acknowledge()` popped; the popped values
    are the current ones from now on, the frame size limit for received frames follows at once, nothing is written -/
theorem C11_ack_received (items : List (Int × Int)) (c : Conn) :
    wp (receiveSettingsFrame true items)
      (fun r c' => r = ([], [Event.SettingsAcknowledged (Settings.acknowledge c.localSettings).1]) ∧
          c'.localSettings = (Settings.acknowledge c.localSettings).2 ∧
          c'.remoteSettings = c.remoteSettings ∧ c'.sent = c.sent ∧ c'.out = c.out ∧
          c'.maxInFrame = (match findChange (Settings.acknowledge c.localSettings).1 SettingCodes.MAX_FRAME_SIZE with
                           | some (_, new) => new | none => c.maxInFrame))
      (fun _ c' => c'.sent = c.sent ∧ c'.out = c.out ∧ c'.remoteSettings = c.remoteSettings) c := by
  unfold receiveSettingsFrame
  wps
  unfold wp connInput
  cases hct : connTable c.cstate .RECV_SETTINGS with
  | none => simp only; exact ⟨trivial, trivial, trivial⟩
  | some t =>
    simp only
    show wp _ _ _ { c with cstate := t }
    simp only [if_true]
    unfold localSettingsAcked
    wps
    have fin := fun (ss : List (Int × Stream)) =>
      localOtherChanges_fields (Settings.acknowledge c.localSettings).1
        { c with cstate := t, localSettings := (Settings.acknowledge c.localSettings).2, streams := ss }
    unfold localWindowChange
    cases findChange (Settings.acknowledge c.localSettings).1 SettingCodes.INITIAL_WINDOW_SIZE with
    | none =>
      simp only
      wps
      exact ⟨trivial, fin c.streams⟩
    | some p =>
      obtain ⟨old, new⟩ := p
      simp only
      cases old with
      | none => simp only; wps; exact ⟨trivial, trivial, trivial⟩
      | some o =>
        simp only
        apply wp_ifcc_frame
        · intro ss; wps; exact ⟨trivial, fin ss⟩
        · intro e ss; exact ⟨rfl, rfl, rfl⟩

/-! ### a SETTINGS frame arrives -/

theorem remoteOtherChanges_fields (ch : List (Int × Option Int × Int)) (c : Conn) :
    (remoteOtherChanges ch c).remoteSettings = c.remoteSettings ∧ (remoteOtherChanges ch c).localSettings = c.localSettings ∧
    (remoteOtherChanges ch c).sent = c.sent ∧ (remoteOtherChanges ch c).out = c.out ∧
    (remoteOtherChanges ch c).maxOutFrame =
      (match findChange ch SettingCodes.MAX_FRAME_SIZE with | some (_, new) => new | none => c.maxOutFrame) := by
  unfold remoteOtherChanges
  cases findChange ch SettingCodes.HEADER_TABLE_SIZE with
  | none => simp only; cases findChange ch SettingCodes.MAX_FRAME_SIZE <;> exact ⟨rfl, rfl, rfl, rfl, rfl⟩
  | some p =>
    simp only
    by_cases h : (p.2 != c.encTableSize) = true
    · simp only [h, if_true]; cases findChange ch SettingCodes.MAX_FRAME_SIZE <;> exact ⟨rfl, rfl, rfl, rfl, rfl⟩
    · simp only [h, Bool.false_eq_true, if_false]; cases findChange ch SettingCodes.MAX_FRAME_SIZE <;> exact ⟨rfl, rfl, rfl, rfl, rfl⟩

/-- **a received SETTINGS frame** is applied at once (queued, then acknowledged in the same call), reported by exactly
    one RemoteSettingsChanged carrying every (setting, old, new) of the frame, and answered by exactly one ACK frame;
    the frame size limit for frames we send follows at once -/
theorem C11_settings_received (items : List (Int × Int)) (c : Conn) :
    wp (receiveSettingsFrame false items)
      (fun r c' =>
        let queued := (Settings.update c.remoteSettings items).2
        r.1 = [Frame.settings true []] ∧
        r.2 = [Event.RemoteSettingsChanged (items.map fun kv => (kv.1, queued.getItem? kv.1, kv.2))] ∧
        c'.remoteSettings = (Settings.acknowledge queued).2 ∧ c'.localSettings = c.localSettings ∧
        c'.sent = c.sent ∧
        c'.maxOutFrame = (match findChange (Settings.acknowledge queued).1 SettingCodes.MAX_FRAME_SIZE with
                          | some (_, new) => new | none => c.maxOutFrame))
      (fun _ c' => c'.sent = c.sent ∧ c'.localSettings = c.localSettings) c := by
  unfold receiveSettingsFrame
  wps
  unfold wp connInput
  cases hct : connTable c.cstate .RECV_SETTINGS with
  | none => simp only; exact ⟨trivial, trivial⟩
  | some t =>
    simp only
    show wp _ _ _ { c with cstate := t }
    simp only [Bool.false_eq_true, if_false]
    wps
    cases hU : Settings.update c.remoteSettings items with
    | mk r s' =>
      cases r with
      | error e => simp only; wps; exact ⟨trivial, trivial⟩
      | ok u =>
        simp only
        wps
        unfold acknowledgeSettings
        wps
        unfold wp connInput
        simp only
        cases hct2 : connTable t .SEND_SETTINGS with
        | none => simp only; exact ⟨trivial, trivial⟩
        | some t2 =>
          simp only
          show wp _ _ _ { c with cstate := t2, remoteSettings := s' }
          wps
          have fin := fun (ss : List (Int × Stream)) (ow : Int) =>
            remoteOtherChanges_fields (Settings.acknowledge s').1
              { c with cstate := t2, remoteSettings := (Settings.acknowledge s').2, streams := ss, outWin := ow }
          unfold remoteWindowChange
          cases findChange (Settings.acknowledge s').1 SettingCodes.INITIAL_WINDOW_SIZE with
          | none =>
            simp only
            wps
            obtain ⟨h1, h2, h3, h4, h5⟩ := fin c.streams c.outWin
            exact ⟨rfl, rfl, h1, h2, h3, h5⟩
          | some p =>
            obtain ⟨old, new⟩ := p
            simp only
            cases old with
            | none => simp only; wps; exact ⟨trivial, trivial⟩
            | some o =>
              simp only
              apply wp_fcc_frame
              · intro ss; wps
                obtain ⟨h1, h2, h3, h4, h5⟩ := fin ss c.outWin
                exact ⟨rfl, rfl, h1, h2, h3, h5⟩
              · intro e ss; exact ⟨rfl, rfl⟩

/-! ### D8: acknowledgements are matched per setting, not per SETTINGS frame -/

/-- the state of a client that has sent its initial SETTINGS and then `update_settings({INITIAL_WINDOW_SIZE: 100})`,
    both still unacknowledged -/
def twoInFlight : Conn :=
  (updateSettings [((SettingCodes.INITIAL_WINDOW_SIZE : Nat), 100)] (initiateConnection (Conn.init { client := true })).2).2

/-- what a received ACK reports, and the INITIAL_WINDOW_SIZE in force afterwards -/
def ackReport (c : Conn) : Option (List (Int × Option Int × Int) × Option Int) :=
  match receiveSettingsFrame true [] c with
  | (.ok (_, [Event.SettingsAcknowledged ch]), c') => some (ch, c'.localSettings.initialWindowSize)
  | _ => none

/-- **the property is false of the code as it is**: the peer's first ACK answers the initial frame, yet it already
    applies and reports the value carried by the second frame (known finding D8) -/
theorem C11_ack_matching_witness :
    ackReport twoInFlight = some ([(((SettingCodes.INITIAL_WINDOW_SIZE : Nat) : Int), some 65535, 100)], some 100) := by
  decide +kernel

end H2.C11
