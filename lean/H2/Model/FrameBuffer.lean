/-
  h2.frame_buffer.FrameBuffer: preamble check, 9-byte header, length check
  against `max_frame_size`, body parse, HEADERS/PUSH_PROMISE + CONTINUATION
  coalescing with the CONTINUATION_BACKLOG cap.
-/
import H2.Model.Frame

namespace H2
open H2.Gen

structure FrameBuffer where
  data : Bytes := []
  maxFrameSize : Int := 0
  preamble : Bytes := []          -- what is still expected of the client preface
  headersBuffer : List Frame := []
deriving Repr, Inhabited, DecidableEq

namespace FrameBuffer

def init (server : Bool) : FrameBuffer := { preamble := if server then Gen.preamble else [] }

/-- `add_data` -/
def addData (fb : FrameBuffer) (d : Bytes) : Except Exc FrameBuffer :=
  if fb.preamble.isEmpty then .ok { fb with data := fb.data ++ d }
  else
    let n := min fb.preamble.length d.length
    if fb.preamble.take n != d.take n then .error (mkExc .ProtocolError)
    else .ok { fb with data := fb.data ++ d.drop n, preamble := fb.preamble.drop n }

inductive Next where
  | none                    -- StopIteration
  | frame (f : RFrame)
  | skip                    -- frame swallowed into the header-block buffer: iterate again
deriving Repr, Inhabited

/-- `_update_header_buffer` on the header-block backlog alone: result and new backlog -/
def stepHeaderBuffer (hb : List Frame) (f : RFrame) : Except Exc (Option RFrame) × List Frame :=
  match hb with
  | first :: _ =>
    match f.frame with
    | .continuation sid _ eh =>
      if sid != first.sid then (.error (mkExc .ProtocolError), hb) else
      -- a frame that would take the backlog past its limit is refused and not retained (fix: D49)
      if (hb.length : Int) ≥ CONTINUATION_BACKLOG then (.error (mkExc .ProtocolError), hb) else
      let buf := hb ++ [f.frame]
      if eh then
        let block := buf.foldl (fun acc x => acc ++ (match x with
          | .headers _ b .. => b | .pushPromise _ _ b .. => b | .continuation _ b _ => b | _ => [])) []
        let joined : Frame := match first with
          | .headers s _ es _ pad prio => .headers s block es true pad prio
          | .pushPromise s p _ _ pad => .pushPromise s p block true pad
          | x => x
        (.ok (some { frame := joined }), [])
      else (.ok none, buf)
    | _ => (.error (mkExc .ProtocolError), hb)
  | [] =>
    match f.frame with
    | .headers _ _ _ false _ _ => (.ok none, [f.frame])
    | .pushPromise _ _ _ false _ => (.ok none, [f.frame])
    | _ => (.ok (some f), [])

/-- `_update_header_buffer` -/
def updateHeaderBuffer (fb : FrameBuffer) (f : RFrame) : Except Exc (Option RFrame) × FrameBuffer :=
  ((stepHeaderBuffer fb.headersBuffer f).1, { fb with headersBuffer := (stepHeaderBuffer fb.headersBuffer f).2 })

/-- one step of `__next__` (without the recursion on a swallowed frame) -/
def next1 (fb : FrameBuffer) : Except Exc Next × FrameBuffer :=
  if fb.data.length < 9 then (.ok .none, fb) else
  match parseFrameHeader (fb.data.take 9) with
  | .error _ => (.error (mkExc .ProtocolError), fb)
  | .ok h =>
    if fb.data.length < h.length + 9 then (.ok .none, fb) else
    if (h.length : Int) > fb.maxFrameSize then (.error (mkExc .FrameTooLargeError), fb) else
    -- SETTINGS ACK with payload: FRAME_SIZE_ERROR (checked before the body is parsed)
    if h.type = 4 && hasBit h.flags 1 && h.length != 0 then (.error (mkExc .FrameDataMissingError), fb) else
    match parseBody h ((fb.data.drop 9).take h.length) with
    | .error .invalidData => (.error (mkExc .ProtocolError), fb)
    | .error .invalidFrame => (.error (mkExc .FrameDataMissingError), fb)
    | .error .invalidPadding => (.error (.py (.Other "InvalidPaddingError")), fb)
    | .ok f =>
      let fb := { fb with data := fb.data.drop (9 + h.length) }
      match updateHeaderBuffer fb f with
      | (.error e, fb) => (.error e, fb)
      | (.ok (some f), fb) => (.ok (.frame f), fb)
      | (.ok none, fb) => (.ok .skip, fb)

/-- `__next__`: fuel bounds the recursion over swallowed frames (each consumes ≥ 9 bytes) -/
def next : Nat → FrameBuffer → Except Exc (Option RFrame) × FrameBuffer
  | 0, fb => (.ok none, fb)
  | fuel+1, fb =>
    match next1 fb with
    | (.error e, fb) => (.error e, fb)
    | (.ok .none, fb) => (.ok none, fb)
    | (.ok (.frame f), fb) => (.ok (some f), fb)
    | (.ok .skip, fb) => next fuel fb

end FrameBuffer
end H2
