"""Per-property generation profiles and observation projections.

A profile is a list of runs {mode, steps, weights, invalid, share}; `share`
splits the program budget.  A projection says which parts of an observation
the property's theorems speak about: only those are compared between the real
library and the model, so that a change elsewhere raises no alarm for this
property (the state peeks `st` listed are compared on every op, which is what
makes a change that leaks into the property's state visible later).
"""

W = dict  # weights shorthand

# indices into the st=... peek: 0 streams,1 closed,2 cstate,3 hi_in,4 hi_out,5 outwin,6 inwin,7 inmax,8 maxout,9 maxin,10 buf
ST_ALL = list(range(11))

PAIR = dict(mode='pair', steps=60, weights=None, invalid=0.12, share=1)
CLIENT_INJ = dict(mode='client', steps=60, weights=W(inject=30, xfer=0), invalid=0.15, share=1)
SERVER_INJ = dict(mode='server', steps=60, weights=W(inject=30, xfer=0), invalid=0.15, share=1)
UPGRADE = dict(mode='upgrade', steps=40, weights=None, invalid=0.1, share=1)


def P(base, **kw):
    d = dict(base)
    d.update(kw)
    return d


FLOW = W(send_data=25, incr_window=8, ack_data=10, update_settings=6, query=10, send_headers=10, end_stream=3,
         push_stream=1, ping=0.5, reset_stream=1.5, altsvc=0.2, prioritize=0.3, close_connection=0.1)

PROFILES = {
    'C01': [P(PAIR, invalid=0.05, steps=80, share=3), P(UPGRADE, invalid=0.05)],
    'C02': [P(PAIR, share=2), P(CLIENT_INJ, weights=W(inject=8, xfer=0)), P(SERVER_INJ, weights=W(inject=10, xfer=0))],
    'C03': [P(PAIR, weights=FLOW, share=2), P(CLIENT_INJ, weights=W(FLOW, inject=25, xfer=0)), P(SERVER_INJ, weights=W(FLOW, inject=25, xfer=0))],
    'C04': [P(PAIR, weights=FLOW, share=2), P(CLIENT_INJ, weights=W(FLOW, inject=30, xfer=0)), P(SERVER_INJ, weights=W(FLOW, inject=30, xfer=0))],
    'C05': [P(PAIR, weights=W(FLOW, ack_data=25, incr_window=0.5), share=2, autoack=True), P(SERVER_INJ, weights=W(FLOW, inject=30, xfer=0, ack_data=25, incr_window=0.5), autoack=True),
            P(CLIENT_INJ, weights=W(FLOW, inject=30, xfer=0, ack_data=25, incr_window=0.5), autoack=True)],
    'C06': [P(PAIR, share=2, invalid=0.2), P(CLIENT_INJ, invalid=0.3), P(SERVER_INJ, invalid=0.3), P(UPGRADE)],
    'C07': [P(CLIENT_INJ, invalid=0.3, share=2), P(SERVER_INJ, invalid=0.3, share=2), P(PAIR)],
    'C08': [P(PAIR, invalid=0.3, share=2), P(UPGRADE, invalid=0.3), P(SERVER_INJ, weights=W(inject=12, xfer=0), invalid=0.3)],
    'C09': [P(PAIR, share=2), P(CLIENT_INJ, invalid=0.25), P(SERVER_INJ, invalid=0.25)],
    'C10': [P(PAIR, weights=W(send_headers=25, update_settings=8, push_stream=6, end_stream=8, reset_stream=6, query=12), share=2),
            P(SERVER_INJ, weights=W(inject=30, xfer=0, update_settings=6, query=10)), P(CLIENT_INJ, weights=W(inject=20, xfer=0, send_headers=25, query=10))],
    'C11': [P(PAIR, weights=W(update_settings=18, xfer=25, query=8), share=2), P(CLIENT_INJ, weights=W(inject=25, xfer=0, update_settings=15)),
            P(SERVER_INJ, weights=W(inject=25, xfer=0, update_settings=15))],
    'C12': [P(CLIENT_INJ, weights=W(inject=25, xfer=0, update_settings=20), invalid=0.4), P(SERVER_INJ, weights=W(inject=25, xfer=0, update_settings=20), invalid=0.4), P(PAIR, weights=W(update_settings=20))],
    'C13': [P(PAIR, weights=W(send_headers=35, push_stream=8, update_settings=6), invalid=0.45, share=3), P(SERVER_INJ, weights=W(inject=15, xfer=0, send_headers=30, push_stream=8), invalid=0.4)],
    'C14': [P(PAIR, weights=W(send_headers=40, push_stream=10), invalid=0.5, share=2, cfgs='out')],
    'C15': [P(CLIENT_INJ, weights=W(inject=40, xfer=0, send_headers=15), invalid=0.45, cfgs='in'), P(SERVER_INJ, weights=W(inject=40, xfer=0), invalid=0.45, cfgs='in')],
    'C16': [P(CLIENT_INJ, weights=W(inject=40, xfer=0, send_headers=20)), P(SERVER_INJ, weights=W(inject=40, xfer=0)), P(PAIR, weights=W(send_headers=25, send_data=25, end_stream=8))],
    'C17': [P(CLIENT_INJ, invalid=0.5, share=2), P(SERVER_INJ, invalid=0.5, share=2), P(PAIR, invalid=0.3)],
    'C18': [P(CLIENT_INJ, invalid=0.5, share=2), P(SERVER_INJ, invalid=0.5, share=2), P(PAIR, invalid=0.3)],
    'C19': [P(PAIR, weights=W(close_connection=4), share=2), P(CLIENT_INJ, weights=W(inject=25, xfer=0, close_connection=3), invalid=0.3), P(SERVER_INJ, weights=W(inject=25, xfer=0, close_connection=3), invalid=0.3)],
    'C20': [P(PAIR, weights=W(reset_stream=12, push_stream=8, send_headers=20, send_data=15), share=3), P(CLIENT_INJ, weights=W(inject=30, xfer=0, reset_stream=12))],
    'C21': [P(PAIR, weights=W(xfer=30), share=2), P(CLIENT_INJ), P(SERVER_INJ)],
    'C22': [P(PAIR, weights=W(push_stream=20, send_headers=20, update_settings=6, reset_stream=5), share=3), P(CLIENT_INJ, weights=W(inject=30, xfer=0))],
    'C23': [P(PAIR, weights=W(prioritize=20, send_headers=20), share=2), P(SERVER_INJ, weights=W(inject=30, xfer=0)), P(CLIENT_INJ, weights=W(inject=15, xfer=0, prioritize=20))],
    'C24': [P(PAIR, weights=W(altsvc=20, send_headers=20), share=2), P(CLIENT_INJ, weights=W(inject=30, xfer=0))],
    'C25': [P(UPGRADE, share=3), P(PAIR)],
    'C26': [P(PAIR, weights=W(ping=15)), P(CLIENT_INJ), P(SERVER_INJ)],
    'C27': [P(CLIENT_INJ, invalid=0.3), P(SERVER_INJ, invalid=0.3), P(PAIR)],
    'C28': [P(PAIR), P(CLIENT_INJ), P(SERVER_INJ)],
    'C29': [P(PAIR, invalid=0.45, share=3), P(UPGRADE, invalid=0.4), P(SERVER_INJ, weights=W(inject=12, xfer=0), invalid=0.45)],
}

# ---------------------------------------------------------------------------
# projections
# ---------------------------------------------------------------------------
# kind of frames in `out` the property is about (None = all bytes), event kinds (None = all), whether the encoder
# feed matters, which st fields.
ALL = dict(frames=None, events=None, enc=True, st=ST_ALL, res=True)

PROJ = {
    'C01': ALL, 'C02': dict(frames=None, events=[], enc=True, st=[2, 8], res=True),
    'C03': dict(frames=['DATA'], events=['WindowUpdated', 'StreamReset'], enc=False, st=[2, 5], res=True),
    'C04': dict(frames=['WINDOW_UPDATE', 'GOAWAY', 'RST_STREAM'], events=['DataReceived', 'SettingsAcknowledged'], enc=False, st=[2, 6, 7, 12], res=True),
    'C05': dict(frames=['WINDOW_UPDATE', 'RST_STREAM'], events=['DataReceived', 'SettingsAcknowledged'], enc=False, st=[2, 6, 7, 12], res=True),
    'C06': dict(frames=['RST_STREAM', 'GOAWAY'], events='kinds', enc=False, st=[0, 2, 3, 4], res=True),
    'C07': dict(frames=[], events=None, enc=False, st=[2], res=True),
    'C08': dict(frames='types', events=[], enc=False, st=[2, 4], res=True),
    'C09': dict(frames=['RST_STREAM', 'GOAWAY'], events='kinds', enc=False, st=[0, 2, 3, 4], res=True),
    'C10': dict(frames=['RST_STREAM', 'GOAWAY'], events='kinds', enc=False, st=[0, 2], res=True),
    'C11': dict(frames=['SETTINGS'], events=['RemoteSettingsChanged', 'SettingsAcknowledged'], enc=False, st=[2, 5, 6, 7, 8, 9], res=True),
    'C12': dict(frames=['SETTINGS', 'GOAWAY'], events=['RemoteSettingsChanged', 'SettingsAcknowledged'], enc=False, st=[2], res=True),
    'C13': dict(frames=['HEADERS', 'PUSH_PROMISE', 'CONTINUATION'], events=[], enc=True, st=[2], res=True),
    'C14': dict(frames=['HEADERS', 'PUSH_PROMISE', 'CONTINUATION'], events=[], enc=True, st=[2], res=True),
    'C15': dict(frames=['GOAWAY', 'RST_STREAM'], events=['RequestReceived', 'ResponseReceived', 'TrailersReceived', 'InformationalResponseReceived', 'PushedStreamReceived'], enc=False, st=[2], res=True),
    'C16': dict(frames=['GOAWAY', 'RST_STREAM'], events=['RequestReceived', 'ResponseReceived', 'TrailersReceived', 'DataReceived', 'StreamEnded', 'StreamReset'], enc=False, st=[2], res=True),
    'C17': dict(frames=[], events=[], enc=False, st=[2], res='kind'),
    'C18': dict(frames=['GOAWAY'], events=[], enc=False, st=[2, 3], res=True),
    'C19': dict(frames='types', events=['ConnectionTerminated'], enc=False, st=[2], res=True),
    'C20': dict(frames=['RST_STREAM', 'GOAWAY', 'WINDOW_UPDATE'], events=None, enc=False, st=[0, 2, 6, 12], res=True),
    'C21': ALL,
    'C22': dict(frames=['PUSH_PROMISE', 'CONTINUATION', 'RST_STREAM', 'GOAWAY'], events=['PushedStreamReceived', 'ResponseReceived', 'RequestReceived'], enc=False, st=[0, 2, 3, 4], res=True),
    'C23': dict(frames=['PRIORITY', 'HEADERS'], events=['PriorityUpdated', 'RequestReceived'], enc=False, st=[0, 2, 5, 6], res=True),
    'C24': dict(frames=['ALTSVC'], events=['AlternativeServiceAvailable'], enc=False, st=[2], res=True),
    'C25': ALL,
    'C26': dict(frames=['PING'], events=['PingReceived', 'PingAckReceived'], enc=False, st=[2], res=True),
    'C27': dict(frames=['GOAWAY', 'RST_STREAM'], events=[], enc=False, st=[0, 1, 2, 10, 11], res=True),
    'C28': ALL,
    'C29': dict(frames='len', events=[], enc=False, st=[2], res=True),
}

# per-stream peek sub-fields compared (0 sid, 1 state, 2 closed_by, 3 out_win, 4 in_win, 5 in_max, 6 flags,
# 7 expected content length, 8 actual content length, 9 bytes the application has
# acknowledged that were not yet handed back); None = all, [] = none
SS = {
    'C01': None, 'C21': None, 'C25': None, 'C28': None,
    'C03': [0, 1, 3], 'C04': [0, 1, 4, 5, 9], 'C05': [0, 1, 4, 5, 9], 'C06': [0, 1, 2, 6], 'C07': [0, 1, 6], 'C08': [0, 1, 6],
    'C09': [0, 1], 'C10': [0, 1], 'C11': [0, 3, 4, 5], 'C12': [0, 3], 'C16': [0, 1, 7, 8], 'C19': [0, 1], 'C20': [0, 1, 2],
    'C22': [0, 1, 6], 'C23': [0, 1, 3, 4], 'C24': [0, 1, 6], 'C27': [0], 'C29': [],
}
